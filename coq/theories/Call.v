(* The typed call path (C01): client.go makeRpcFunc / handleRpcCall / processResponse / processError, util.go processFuncOut
   and param, handler.go register / handle (parameter decoding, reflective call, result encoding), with the index
   arithmetic of the reflection code explicit (arrays as lists with positional writes). encoding/json and user code enter
   as section variables: `marshal`, `unmarshal` (json.Unmarshal into reflect.New(t)), custom param encoders / decoders.
   "The JSON round trip of v at type t" is by definition  marshal v >>= unmarshal t.  No proofs here. *)
From Coq Require Import String.
From Coq Require Import List NArith ZArith Bool Arith.
Import ListNotations.
From JR Require Import Json Handle Errors.
From JRGen Require Extracted.
Local Open Scope nat_scope.

Fixpoint set_nth {A} (n : nat) (x : A) (l : list A) : list A :=
  match l, n with
  | [], _ => []
  | _ :: t, O => x :: t
  | h :: t, S n' => h :: set_nth n' x t
  end.

Section Call.
  Context {val ty : Type}.
  Variable ty_eqb : ty -> ty -> bool.
  Variable marshal : val -> option json.
  Variable unmarshal : ty -> json -> option val.
  Variable zero : ty -> val.
  Variable type_of : val -> ty.
  Variable encoders : list (ty * (val -> option val)).    (* client: WithParamEncoder, keyed by the argument's type *)
  Variable decoders : list (ty * (json -> option val)).   (* server: WithParamDecoder, keyed by the parameter's type *)

  Fixpoint lookup {B} (t : ty) (l : list (ty * B)) : option B :=
    match l with [] => None | (t', b) :: r => if ty_eqb t t' then Some b else lookup t r end.

  (* ---------- Go func types as the reflection code sees them *)
  Inductive inty := InRecv | InCtx | InRaw | InTy (t : ty).
  Inductive outty := OutVal (t : ty) | OutErr.
  Record ftype := { f_ins : list inty; f_outs : list outty }.

  Definition is_ctx (i : option inty) : bool := match i with Some InCtx => true | _ => false end.
  Definition is_raw (i : option inty) : bool := match i with Some InRaw => true | _ => false end.

  (* util.go processFuncOut: (valOut, errOut, n); None = panic *)
  Definition process_func_out (outs : list outty) : option (option nat * option nat * nat) :=
    match outs with
    | [] => Some (None, None, 0)
    | [OutErr] => Some (None, Some 0, 1)
    | [OutVal _] => Some (Some 0, None, 1)
    | [_; OutErr] => Some (Some 0, Some 1, 2)
    | _ => None
    end.

  (* ---------- client: makeRpcFunc *)
  Record rpcfunc := {
    rf_type : ftype; rf_nout : nat; rf_valout : option nat; rf_errout : option nat;
    rf_hasctx : nat; rf_raw : bool; rf_notify : bool }.

  Definition make_rpc_func (ft : ftype) (notify : bool) : option rpcfunc :=
    match process_func_out (f_outs ft) with
    | None => None
    | Some (vo, eo, n) =>
        if (match vo with Some _ => notify | None => false end) then None       (* notify methods cannot return values *)
        else
          let hasctx := if (0 <? List.length (f_ins ft)) && is_ctx (nth_error (f_ins ft) 0) then 1 else 0 in
          let raw := (hasctx <? List.length (f_ins ft)) && is_raw (nth_error (f_ins ft) hasctx) in
          if raw && (hasctx + 1 <? List.length (f_ins ft)) then None            (* raw params can't be mixed *)
          else Some {| rf_type := ft; rf_nout := n; rf_valout := vo; rf_errout := eo;
                       rf_hasctx := hasctx; rf_raw := raw; rf_notify := notify |}
    end.

  (* arguments of one invocation of the generated function *)
  Inductive arg := ACtx | ARaw (j : option json) | AVal (v : val).

  Fixpoint all_some {A} (l : list (option A)) : option (list A) :=
    match l with
    | [] => Some []
    | Some x :: r => option_map (cons x) (all_some r)
    | None :: _ => None
    end.

  (* handleRpcCall, parameter serialisation: None = processError (encoder or marshalling failed). The params member is
     absent on the wire only for empty raw params *)
  Definition encode_arg (a : arg) : option json :=
    match a with
    | AVal v => match lookup (type_of v) encoders with
                | Some enc => match enc v with Some v' => marshal v' | None => None end
                | None => marshal v
                end
    | _ => None
    end.

  Definition serialize_params (fn : rpcfunc) (args : list arg) : option (option json) :=
    if rf_raw fn then
      match nth_error args (rf_hasctx fn) with Some (ARaw j) => Some j | _ => None end
    else option_map (fun l => Some (JArr l)) (all_some (map encode_arg (skipn (rf_hasctx fn) args))).

  (* ---------- server: register *)
  Record mhandler := {
    mh_recvs : list inty; mh_nparams : nat; mh_hasctx : nat; mh_raw : bool;
    mh_valout : option nat; mh_errout : option nat }.

  (* raw seen at position i makes every later position i' > 0 panic *)
  Fixpoint scan_raw (i : nat) (l : list inty) (raw : bool) : option bool :=
    match l with
    | [] => Some raw
    | t :: r => if raw && (0 <? i) then None
                else scan_raw (S i) r (raw || match t with InRaw => true | _ => false end)
    end.

  (* None = register panics *)
  Definition register_method (ft : ftype) : option mhandler :=
    let nin := List.length (f_ins ft) in
    let hasctx := if (2 <=? nin) && is_ctx (nth_error (f_ins ft) 1) then 1 else 0 in
    let ins := nin - 1 - hasctx in
    let recvs := map (fun i => nth (i + 1 + hasctx) (f_ins ft) InRecv) (seq 0 ins) in
    match scan_raw 0 recvs false, process_func_out (f_outs ft) with
    | Some raw, Some (vo, eo, _) =>
        Some {| mh_recvs := recvs; mh_nparams := ins; mh_hasctx := hasctx; mh_raw := raw; mh_valout := vo; mh_errout := eo |}
    | _, _ => None
    end.

  (* ---------- server: handle, from the resolved method to the response *)
  Inductive cval := CRecv | CCtx | CRawP (j : option json) | CVal (v : val) | CUnset.
  Inductive oret := RVal (v : val) | RErr (e : option errval).

  Inductive sresp :=
  | SResult (j : json)                 (* "result": j *)
  | SError (w : wire_err)              (* handler error through createError *)
  | SRpc (code : Z)                    (* rpcError: parse error, invalid params, fatal error calling *)
  | SNoMarshal.                        (* the result does not marshal: response.MarshalJSON fails (outside the property's domain) *)

  Definition decode_param (t : inty) (j : json) : option val :=
    match t with
    | InTy t => match lookup t decoders with
                | Some dec => dec j
                | None => unmarshal t j
                end
    | _ => None
    end.

  (* for i := 0; i < nParams; i++ { callParams[i+1+hasCtx] = decode(paramReceivers[i], ps[i]) } *)
  Fixpoint fill_params (h : mhandler) (ps : list json) (i n : nat) (acc : list cval) : Z + list cval :=
    match n with
    | O => inr acc
    | S n' =>
        match decode_param (nth i (mh_recvs h) InRecv) (nth i ps JNull) with
        | Some v => fill_params h ps (S i) n' (set_nth (i + 1 + mh_hasctx h) (CVal v) acc)
        | None => inl Extracted.rpcParseError
        end
    end.

  (* the callParams array: receiver, context, then the parameters, each written at its index *)
  Definition call_params (h : mhandler) (params : option json) : Z + list cval :=
    let base := repeat CUnset (1 + mh_hasctx h + mh_nparams h) in
    let base := set_nth 0 CRecv base in
    let base := if Nat.eqb (mh_hasctx h) 1 then set_nth 1 CCtx base else base in
    if mh_raw h then inr (set_nth (1 + mh_hasctx h) (CRawP params) base)
    else
      match (match params with
             | None => inr []
             | Some JNull => inr []
             | Some (JArr l) => inr l
             | Some _ => inl Extracted.rpcParseError end) with
      | inl c => inl c
      | inr ps =>
          if negb (Nat.eqb (List.length ps) (mh_nparams h)) then inl Extracted.rpcInvalidParams
          else
            fill_params h ps 0 (mh_nparams h) base
      end.

  (* the user's method: from the reflective argument list to its results (None = it panicked; an unset argument makes
     reflect.Call panic as well) *)
  Definition method := list cval -> option (list oret).

  Definition has_unset (l : list cval) : bool := existsb (fun c => match c with CUnset => true | _ => false end) l.

  (* after the reflective call: what goes back (None = nothing: a notification) *)
  Definition respond (tycaps : tykey -> caps) (errs : option registry_s) (h : mhandler) (notification : bool)
             (r : option (list oret)) : option sresp :=
    match r with
    | None => Some (SRpc 0)
    | Some outs =>
        if notification then None
        else
          let err := match mh_errout h with
                     | Some i => match nth_error outs i with Some (RErr (Some e)) => Some e | _ => None end
                     | None => None end in
          match err with
          | Some e => Some (SError (create_error tycaps errs e))
          | None =>
              match mh_valout h with
              | Some i => match nth_error outs i with
                          | Some (RVal v) => match marshal v with
                                             | Some j => Some (SResult j)
                                             | None => Some SNoMarshal end
                          | _ => Some (SResult JNull)
                          end
              | None => Some (SResult JNull)
              end
          end
    end.

  Definition server_call (tycaps : tykey -> caps) (errs : option registry_s) (h : mhandler) (m : method)
             (notification : bool) (params : option json) : option sresp * list (list cval) :=
    match call_params h params with
    | inl code => (Some (SRpc code), [])
    | inr cps =>
        if has_unset cps then (Some (SRpc 0), [])
        else (respond tycaps errs h notification (m cps), [cps])
    end.

  (* ---------- client: result decoding, processResponse / processError *)
  Inductive cerr :=
  | EHandler (e : client_err)            (* resp.Error.val(errors) *)
  | ELocal.                              (* &ErrClient{...}: marshalling / unmarshalling / transport failure *)
  Inductive cout := OVal (v : val) | OErrv (e : option cerr) | OUnset.

  Definition out_val_type (fn : rpcfunc) : option ty :=
    match rf_valout fn with
    | Some i => match nth_error (f_outs (rf_type fn)) i with Some (OutVal t) => Some t | _ => None end
    | None => None
    end.

  Definition process_error (fn : rpcfunc) : list cout :=
    let out := repeat OUnset (rf_nout fn) in
    let out := match rf_valout fn, out_val_type fn with
               | Some i, Some t => set_nth i (OVal (zero t)) out
               | _, _ => out end in
    match rf_errout fn with Some i => set_nth i (OErrv (Some ELocal)) out | None => out end.

  Definition process_response (fn : rpcfunc) (rval : option val) (e : option client_err) : list cout :=
    let out := repeat OUnset (rf_nout fn) in
    let out := match rf_valout fn, rval with
               | Some i, Some v => set_nth i (OVal v) out
               | _, _ => out end in
    match rf_errout fn with Some i => set_nth i (OErrv (option_map EHandler e)) out | None => out end.

  Definition rpc_wire (code : Z) : wire_err := {| we_code := code; we_msg := []; we_meta := None; we_data := None |}.

  Definition client_finish (tycaps : tykey -> caps) accept_codec accept_meta (cerrs : option registry_c)
             (fn : rpcfunc) (r : option sresp) : list cout :=
    match r with
    | None => process_response fn (option_map zero (out_val_type fn)) None      (* notification: nothing comes back *)
    | Some SNoMarshal => process_error fn
    | Some (SResult j) =>
        match out_val_type fn with
        | Some t => match unmarshal t j with
                    | Some v => process_response fn (Some v) None
                    | None => process_error fn                                 (* unmarshaling result failed *)
                    end
        | None => process_response fn None None
        end
    | Some (SError w) =>
        process_response fn (option_map zero (out_val_type fn)) (Some (Errors.val tycaps accept_codec accept_meta cerrs w))
    | Some (SRpc code) =>
        process_response fn (option_map zero (out_val_type fn)) (Some (Errors.val tycaps accept_codec accept_meta cerrs (rpc_wire code)))
    end.

  (* ---------- one call, end to end: the generated client function against the registered method *)
  Definition call (tycaps : tykey -> caps) accept_codec accept_meta (serrs : option registry_s) (cerrs : option registry_c)
             (fn : rpcfunc) (h : mhandler) (m : method) (args : list arg) : list cout * list (list cval) :=
    match serialize_params fn args with
    | None => (process_error fn, [])
    | Some params =>
        let '(r, invs) := server_call tycaps serrs h m (rf_notify fn) params in
        (client_finish tycaps accept_codec accept_meta cerrs fn r, invs)
    end.
End Call.
