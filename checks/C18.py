"""C18 — closing a client always completes. Theorems: Props_C18.v (model Conn.v). Correspondence: trace validation of harness family conn."""
import vlib
import connrun

PROPS = "Props_C18"


def run(res):
    vlib.proof_step(res, PROPS, ["theories/ConnCases.vo", "theories/StreamCases.vo"])
    connrun.run_conn(res, ["close", "fault"], with_streams=True)


def replay(res, path):
    run(res)
