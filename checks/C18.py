"""C18 — closing a client always completes. Theorems: Props_C18.v (model Conn.v). Correspondence: trace validation of harness family conn;
calls whose response never becomes usable, in flight at the close (family close-pending, direct oracle)."""
import vlib
import connrun

PROPS = "Props_C18"


def run(res):
    vlib.proof_step(res, PROPS, ["theories/ConnCases.vo", "theories/StreamCases.vo"])
    connrun.run_conn(res, ["close", "fault"], with_streams=True)
    close_pending(res)


def close_pending(res):
    exe = vlib.build_harness()[2]
    rc, obs, err, bad = vlib.run_family(exe, "close-pending", seed=res.seed, tier=res.tier, timeout=300)
    if rc != 0 or bad or not obs:
        res.mismatches.append({"family": "close-pending", "error": "harness exit %d" % rc, "stderr": err[-2000:], "bad": bad[:3]})
        return
    for o in obs:
        if o.get("oracle_fail"):
            res.violations.append({"what": o["oracle_fail"], "family": "close-pending", "case": o, "signature": "close-pending:%s:%s" % (o["method"], o["answer"])})
    # the client connection's hook trace of each case is a behaviour of Conn.step (ExecAbandon where the response is dropped)
    import conncommon
    bad, items = conncommon.validate(res, [o for o in obs if o.get("events")], res.prop + "cp")
    for r, d, i, evs in bad:
        res.mismatches.append({"family": "close-pending", "params": r["params"], "diag": d, "at_event": i, "events_around": evs[max(0, i - 8):i + 3],
                               "note": "the recorded trace is not a behaviour of Conn.step"})
    res.add_cov(close_pending_traces_validated=len(items) - len(bad), abandon_events=sum(1 for _, evs, _ in items for e in evs if e.startswith("ExecAbandon")))
    res.add_cov(close_with_unusable_responses=len(obs), pending_until_close=sum(1 for o in obs if not o["returned_before_close"]),
                close_pending_rule="fake peer answers a subscribing / unary call with nothing, a foreign id or a result that is not a channel id; then the closer is invoked: it returns and the call returns")


def replay(res, path):
    run(res)
