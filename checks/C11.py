"""C11 — handler errors arrive intact; registered error types round-trip by code. Theorems: Props_C11.v (Errors.v).
Correspondence: family `errors` — 14 error kinds x 9 registration-table relations x messages x {error, (value,error)} x
{http, ws}; the caller's observation (nil?, dynamic type, Error(), fields, value slot) against
Errors.receive (Errors.serve ...) evaluated in Coq. The harness also judges each case with the property stated directly."""
import collections
import json
import vlib

PROPS = "Props_C11"

TYPES = {"*jsonrpc.JSONRPCError": (0, True), "main.plainVal": (1, False), "*main.plainPtr": (2, True), "*main.marshErr": (3, True),
         "*main.codecErr": (4, True), "*main.bothErr": (5, True), "*main.failUnmarshal": (6, True), "*main.failFrom": (7, True),
         "main.valReg": (10, False), "*main.valReg": (10, True), "*main.dataErr": (13, True), "*main.emptyMsgErr": (14, True), "main.valCodec": (15, False), "": (0, True)}


def tab(t):
    if t is None:
        return "None"
    return "(Some [" + "; ".join("(%d%%Z, %d%%N)" % (r[0], r[1]) for r in t) + "])"


def term(c):
    ty, ptr = TYPES.get(c["type"], (98, True))
    return ("{| ec_kind := %d%%N; ec_msg := %s; ec_n := %d%%Z; ec_valerr := %s; ec_sreg := %s; ec_creg := %s; ec_nil := %s; "
            "ec_ty := %d%%N; ec_ptr := %s; ec_errstr := %s; ec_fields := %s; ec_val := %d%%Z |}" % (
                c["kind"], vlib.pack_bytes(bytes.fromhex(c["msg"])), c["n"], vlib.coq_bool(c["shape"] == "valerr"), tab(c["sreg"]), tab(c["creg"]),
                vlib.coq_bool(c["nil"]), ty, vlib.coq_bool(ptr), vlib.pack_bytes(bytes.fromhex(c["error_string"])),
                vlib.pack_bytes((c["fields"] or "null").encode()), c["val"]))


def show(c):
    d = dict(c)
    d["msg"] = bytes.fromhex(c["msg"]).decode("utf-8", "replace")[:200]
    d["error_string"] = bytes.fromhex(c["error_string"]).decode("utf-8", "replace")[:200]
    return d


def sig(c):
    return "errors:kind=%d,shape=%s,transport=%s,sreg=%s,creg=%s,msg=%s" % (
        c["kind"], c["shape"], c["transport"], json.dumps(c["sreg"]), json.dumps(c["creg"]), c["msg"][:40])


def run(res):
    vlib.proof_step(res, PROPS, ["theories/ErrorsCases.vo"])
    okb, blog, exe = vlib.build_harness()
    if not okb:
        res.failed_obligations.append(("harness does not build against /repo", blog))
        return
    rc, cases, err, bad = vlib.run_family(exe, "errors", seed=res.seed, tier=res.tier)
    if rc != 0 or bad or not cases:
        res.mismatches.append({"family": "errors", "error": "harness exit %d" % rc, "stderr": err[-2000:], "bad": bad[:3]})
        return
    for c in cases:
        if c.get("oracle_fail"):
            res.violations.append({"what": c["oracle_fail"], "case": show(c), "family": "errors", "signature": sig(c)})
    shards = [list(range(len(cases)))[i::8] for i in range(8)]
    shards = [s for s in shards if s]
    hdr = ("From Coq Require Import String.\nFrom Coq Require Import List NArith ZArith Bool Uint63.\nImport ListNotations.\n"
           "From JR Require Import Json Bytes AuthCases Errors ErrorsCases.\n")
    jobs = [("cases_C11_%d" % i, hdr + "Definition cases : list ecase := [\n%s\n].\nDefinition M := Eval vm_compute in mismatches ecase_ok cases.\nPrint M.\n"
             % ";\n".join(term(cases[j]) for j in sh)) for i, sh in enumerate(shards)]
    nmis = 0
    for (nm, rc2, out), sh in zip(vlib.run_cases_parallel(jobs), shards):
        mm = vlib.parse_mismatch_list(out) if rc2 == 0 else None
        if mm is None:
            res.mismatches.append({"family": "errors", "error": "cases file %s did not evaluate" % nm, "log": out[-1500:]})
            continue
        for j in mm:
            c = cases[sh[j]]
            nmis += 1
            res.mismatches.append({"family": "errors", "case": show(c), "note": "observed outcome differs from Errors.receive (Errors.serve ...)"})
            w = direct_oracle(c)
            if w:
                res.violations.append({"what": w, "case": show(c), "family": "errors", "signature": sig(c)})
    hist = collections.Counter((c["type"] or "nil") for c in cases)
    res.add_cov(evaluations=len(cases),
                distinct_nontrivial=len({(c["kind"], c["msg"], c["shape"], c["transport"], json.dumps(c["sreg"]), json.dumps(c["creg"])) for c in cases if c["kind"] != 0}),
                rule="14 error kinds (nil, plain value/pointer, wrapped registered errors, marshalable, codec, codec+marshalable, failing UnmarshalJSON, failing FromJSONRPCError, "
                     "errors.New, pointer to a value-registered type, value-registered type) x 9 table relations (same, server-only, client-only, none, "
                     "disjoint codes, swapped types, codec codes only, nil client table, nil server table) x 6 messages (empty, escapes, HTML, "
                     "multi-byte UTF-8, control characters, 1500 bytes) x 2 shapes x 2 transports; quick thins messages per kind; non-trivial = a non-nil error",
                samples=[show(cases[i]) for i in (3, len(cases) // 3, len(cases) // 2, len(cases) - 2)],
                histogram=dict(hist))
    res.assumptions += ["user conversions (MarshalJSON/UnmarshalJSON/ToJSONRPCError/FromJSONRPCError) enter the model as the data they produce and an acceptance predicate; "
                        "the harness types implement exactly the ones ErrorsCases.v describes",
                        "reflect.TypeOf / Implements and encoding/json are Go runtime/stdlib (modelled, not verified)"]


def direct_oracle(c):
    """the property stated directly for the cases where it fixes the outcome (independent of the model)"""
    same = c["sreg"] is not None and c["creg"] is not None and sorted(map(tuple, c["sreg"])) == sorted(map(tuple, c["creg"]))
    k = c["kind"]
    msg = bytes.fromhex(c["msg"]).decode()
    if (k == 0) != c["nil"]:
        return "handler returned %s but the caller's error is %s" % ("nil" if k == 0 else "an error", "nil" if c["nil"] else "non-nil")
    if k != 0 and c["shape"] == "valerr" and c["val"] != 0:
        return "non-zero value %d beside an error" % c["val"]
    if k == 0:
        return None
    if same and k in (1, 2, 3, 10):
        want = {1: "main.plainVal", 2: "*main.plainPtr", 3: "*main.marshErr", 10: "main.valReg"}[k]
        if c["type"] != want:
            return "error of type %s registered under the same code on both sides arrived as %s" % (want, c["type"])
        if k == 3 and json.loads(c["fields"]) != {"M": msg, "N": c["n"]}:
            return "marshalable error content changed: sent %r got %s" % ({"M": msg, "N": c["n"]}, c["fields"])
    if k in (4, 5) and c["creg"] is not None:
        code = 40 + c["n"] % 3 if k == 4 else 45
        reg = {r[0]: r[1] for r in c["creg"]}
        if reg.get(code) == k:
            want = {4: "*main.codecErr", 5: "*main.bothErr"}[k]
            f = json.loads(c["fields"]) if c["fields"] else {}
            data = {"n": c["n"]} if k == 4 else [c["n"], "d"]
            if c["type"] != want or f.get("code") != code or f.get("message") != msg or f.get("data") != data:
                return "codec error (code %d) did not arrive as %s with its codec-provided fields: %s %s" % (code, want, c["type"], c["fields"])
    if k in (11, 12):
        msg = "ctx: " + msg
    if k in (8, 9, 11, 12) or c["sreg"] is None and k in (1, 2, 10):
        if c["creg"] is None or 1 not in {r[0] for r in c["creg"]}:
            f = json.loads(c["fields"]) if c["fields"] else {}
            if c["type"] != "*jsonrpc.JSONRPCError" or f.get("code") != 1 or f.get("message") != msg:
                return "unregistered error did not arrive as the generic error with code 1 and its message: %s %s" % (c["type"], c["fields"])
    if k in (6, 7) and c["type"] not in ("*jsonrpc.JSONRPCError", "*main.failUnmarshal", "*main.failFrom"):
        return "failed conversion produced %s" % c["type"]
    return None


def replay(res, path):
    run(res)
