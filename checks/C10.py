"""C10 — no peer input crashes or wedges the process; oversize bodies refused. Theorems: Props_C10.v.
Correspondence: ws-frames (server and client role, library side in a worker subprocess) + http-bodies (size boundary)."""
import collections
import json
import C09
import vlib
import httpcommon

PROPS = "Props_C10"


def frames_term(frames):
    return "[" + ";\n".join(vlib.pack_bytes(bytes.fromhex(f["hex"])) for f in frames) + "]"


def run(res):
    cases = C09.run(res, props=PROPS, prop_filter=lambda c: True)
    if cases is None:
        return
    ws_frames(res)


def ws_frames(res):
    """raw frames to a real server / from a fake server to real clients (with and without handlers), library side in a
    worker subprocess; shared with C13 (a panicking handler over WebSocket fails only its own call, on both sides)"""
    exe = vlib.build_harness()[2]
    rc, obs, err, bad = vlib.run_family(exe, "ws-frames", seed=res.seed, tier=res.tier, timeout=1500)
    if rc != 0 or bad or not obs:
        res.mismatches.append({"family": "ws-frames", "error": "harness exit %d" % rc, "stderr": err[-2000:], "bad": bad[:3]})
        return
    jobs = []
    for i, o in enumerate(obs):
        if o.get("oracle_fail"):
            last = bytes.fromhex(o["frames"][-1]["hex"]).decode("utf-8", "replace") if o["crashed_at"] >= 0 else None
            res.violations.append({"what": o["oracle_fail"], "family": "ws-frames",
                                   "case": {"role": o["role"], "crashing_frame": last, "crash_log": o.get("crash_log", "")[:800],
                                            "frames_before": [bytes.fromhex(f["hex"]).decode("utf-8", "replace") for f in o["frames"][-4:-1]]},
                                   "signature": "ws-frame:%s:%s" % (o["role"], last)})
        if o["role"] == "server":
            invs = "[" + "; ".join("(%s, %s)" % (vlib.pack_bytes(x["name"].encode()), vlib.pack_bytes(x["args"].encode())) for x in o["invs"]) + "]"
            recv = "[" + ";\n".join(vlib.pack_bytes(bytes.fromhex(h)) for h in o["received"]) + "]"
            term = "{| sc_frames := %s; sc_received := %s; sc_invs := %s; sc_crashed := %s; sc_probe := %s |}" % (
                frames_term(o["frames"]), recv, invs, vlib.coq_bool(o["crashed_at"] >= 0), vlib.coq_bool(o["probe_ok"]))
            src = httpcommon.HEADER + "From JR Require Import Frame FrameCases.\nDefinition c : scase := %s.\nDefinition M := Eval vm_compute in (if scase_ok c then [] else [scase_diag c]).\nPrint M.\n" % term
        else:
            block = bytes.fromhex(o["received"][0]) if o["received"] else b"null"
            term = "{| cc_frames := %s; cc_block_id := %s; cc_vals := %s; cc_open := %s; cc_crashed := %s; cc_probe := %s; cc_has_handler := %s |}" % (
                frames_term(o["frames"]), vlib.pack_bytes(block), "[" + "; ".join("(%d)%%Z" % v for v in o["chan_vals"]) + "]",
                vlib.coq_bool(o["chan_open"]), vlib.coq_bool(o["crashed_at"] >= 0), vlib.coq_bool(o["probe_ok"]), vlib.coq_bool(o["role"] == "client"))
            src = httpcommon.HEADER + "From JR Require Import Frame FrameCases.\nDefinition c : ccase := %s.\nDefinition M := Eval vm_compute in (if ccase_ok c then [] else [ccase_diag c]).\nPrint M.\n" % term
        jobs.append(("cases_C10f_%d" % i, src))
    diag_txt = {1: "crash disagreement", 2: "a received frame is not JSON / channel values differ", 3: "an expected response is missing / channel open-ness differs",
                4: "an unexpected frame was received", 5: "handler invocations differ", 6: "probe failed"}
    for (nm, rc2, out), o in zip(vlib.run_cases_parallel(jobs), obs):
        mm = vlib.parse_mismatch_list(out) if rc2 == 0 else None
        if mm is None:
            res.mismatches.append({"family": "ws-frames", "error": "cases file %s did not evaluate" % nm, "log": out[-1500:]})
        elif mm:
            res.mismatches.append({"family": "ws-frames", "role": o["role"], "diag": diag_txt.get(mm[0], mm[0]), "nframes": len(o["frames"]),
                                   "first_frames": [bytes.fromhex(f["hex"]).decode("utf-8", "replace") for f in o["frames"][:3]],
                                   "note": "Frame.exec_frame + Handle.handle over this batch disagree with the implementation (bisect with VERIF_SEED and smaller batches)"})
    nframes = sum(len(o["frames"]) for o in obs)
    hist = collections.Counter()
    for o in obs:
        hist["frames_" + o["role"]] += len(o["frames"])
        hist["responses_received_" + o["role"]] += len(o["received"])
        hist["crashes"] += 1 if o["crashed_at"] >= 0 else 0
        hist["conn_closed_by_library"] += len(o["conn_closed_after"])
        hist["chan_values_delivered"] += len(o["chan_vals"])
    distinct = len({f["hex"] for o in obs for f in o["frames"]})
    cov = res.coverage
    cov["ws_frames"] = nframes
    cov["ws_histogram"] = dict(hist)
    cov["evaluations"] = cov.get("evaluations", 0) + nframes
    cov["distinct_nontrivial"] = cov.get("distinct_nontrivial", 0) + distinct
    cov["rule"] = cov.get("rule", "") + (" | ws-frames: corpus of repaired crashers first; 12 method kinds (7 calls, 3 built-ins, response, absent) x 60 params shapes "
                                         "(absent,null,[],{},string,[x],[x,y]; x over 11 JSON shapes incl. 2^64, negative, fraction) x 8 id kinds (built-ins exhaustive, plain calls "
                                         "thinned 1/3 in quick) + byte mutations + binary frames; sent to a real server and, from a fake server, to a real client holding an in-flight call "
                                         "and a live subscription; library side in a worker subprocess (death = crash); distinct = frame bytes")
    cov["samples"] = cov.get("samples", [])[:2] + [{"role": o["role"], "frames": [bytes.fromhex(f["hex"]).decode("utf-8", "replace") for f in o["frames"][28:32]]} for o in obs[:1] + obs[-1:]]
    res.assumptions += ["gorilla/websocket's handling of WebSocket-level protocol violations (legitimately closes the connection)",
                        "panics inside user Error()/MarshalJSON methods are user code outside handlers, not claimed"]


def replay(res, path):
    run(res)
