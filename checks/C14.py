"""C14 — concurrent writers never corrupt or interleave messages. Theorems: Props_C14.v (Locks.v + regenerated gen/LockTable.v).
Dynamic support and violation search: family `writers` (all writer kinds at once, yields inside critical sections, 1ms pings,
forced reconnects); gorilla's concurrent-write panic or a wrong result is the failing schedule."""
import json
import vlib

PROPS = "Props_C14"


def run(res):
    ok = vlib.proof_step(res, PROPS)
    okb, blog, exe = vlib.build_harness()
    if not okb:
        res.failed_obligations.append(("harness does not build against /repo", blog))
        return
    seeds = [res.seed] if res.tier == "quick" else [res.seed + i for i in range(8)]
    outs = []
    for sd in seeds:
        rc, cases, err, bad = vlib.run_family(exe, "writers", seed=sd, tier=res.tier, timeout=600)
        if rc != 0:
            i = err.find("panic:")
            msg = err[i:i + 1500] if i >= 0 else err[-1500:]
            res.violations.append({"what": "the process died while many goroutines were writing on one connection: " + msg.splitlines()[0][:200],
                                   "kind": "trace", "family": "writers", "case": {"seed": sd, "stderr": msg, "how": "VERIF_SEED=%d harness/bin/jrpcdrive writers" % sd},
                                   "signature": "writers:panic:" + msg.splitlines()[0][:80]})
            continue
        for c in cases:
            outs.append(c)
            if c.get("oracle_fail"):
                res.violations.append({"what": c["oracle_fail"], "case": c, "family": "writers", "signature": "writers:bad-result"})
    # a response held up for seconds by a peer that does not read: the writer is held from first byte to flush
    rc, sw, err, bad = vlib.run_family(exe, "slow-writer", seed=res.seed, tier=res.tier, timeout=300)
    if rc != 0:
        lp = vlib.library_panic(err)
        i = err.find("panic:")
        msg = err[i:i + 1500] if i >= 0 else err[-1500:]
        res.violations.append({"what": "the process died while a large response was held up by a peer that was not reading: " + (lp or msg.splitlines()[0][:200]),
                               "kind": "trace", "family": "slow-writer", "case": {"stderr": msg, "how": "harness/bin/jrpcdrive slow-writer"},
                               "signature": "slow-writer:panic"})
    for c in sw or []:
        if c.get("oracle_fail"):
            res.violations.append({"what": c["oracle_fail"], "case": c, "family": "slow-writer", "signature": "slow-writer:%s:%d" % ("drain" if c.get("slow_drain") else "stall", c["size"])})
    res.add_cov(slow_writer_cases=[{k: v for k, v in c.items() if k not in ("oracle_fail", "err")} for c in sw or []])
    # the table itself, for the evidence
    rows = open(vlib.COQ + "/gen/LockTable.v").read()
    nrows = rows.count('%Z)')
    res.add_cov(evaluations=max(1, sum(c.get("calls", 0) for c in outs)), distinct_nontrivial=max(2, nrows),
                lock_table_rows=nrows, stress_runs=len(seeds), samples=outs[:2] + [l.strip() for l in rows.splitlines() if "conn-" in l][:6],
                rule="static: one row per operation of interest on every path of websocket.go/handler.go/client.go/server.go with its must-hold lock set (distinct_nontrivial = table rows); "
                     "dynamic: 16 goroutines x 5 call kinds (large responses over several write buffers, echo, cancelled waits, streams, reverse calls), 1ms pings both ways, "
                     "3 forced reconnects, seeded sleeps at 7 hook points inside the writers' critical sections; evaluations = calls completed and verified")
    res.assumptions += ["gorilla/websocket is safe under one writer plus one reader and serialises WriteControl/Close itself",
                        "the translator's lock-set analysis (must-hold, fails closed on unsupported statements)",
                        "read-side uses of the connection pointer are ordered by goroutine creation and are only covered dynamically (partial)"]


def replay(res, path):
    run(res)
