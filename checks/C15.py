"""C15 — connection end cancels handlers and lets go. Theorems: Props_C15.v (model Resp.v). Correspondence: trace validation (requester and responder side)."""
import vlib
import connrun

PROPS = "Props_C15"


def run(res):
    vlib.proof_step(res, PROPS, ["theories/ConnCases.vo", "theories/RespCases.vo"])
    connrun.run_conn(res, ["connend", "cancel"], with_responder=True)


def replay(res, path):
    run(res)
