"""C20 — reader parameters. Theorems: Props_C20.v. Correspondence: family `reader` (trace validation of every Read/Close)."""
import collections
import json
import vlib
from vlib import coq_list as L, coq_bool as B

PROPS = "Props_C20"
ERR = {"": 0, "EOF": 1, "closed": 2}


def term(c):
    obs = []
    for o in c["obs"]:
        if o["op"] == "close":
            obs.append("OC")
        else:
            obs.append("OR %d %d %d %d%%uint63" % (o["n"], o["k"], ERR.get(o["err"], 3), o["sum"]))
    return "{| rc_kind := %d%%uint63; rc_seed := %d%%uint63; rc_len := %d; rc_obs := %s; rc_panic := %s; rc_updone := %s |}" % (
        c["kind"], c["pseed"], c["len"], L(obs), B("panic" in c["client_err"]), B(c["upload_completed"]))


def run(res):
    vlib.proof_step(res, PROPS, ["theories/ReaderCases.vo"])
    okb, blog, exe = vlib.build_harness()
    if not okb:
        res.failed_obligations.append(("harness does not build against /repo", blog))
        return
    rc, cases, err, bad = vlib.run_family(exe, "reader", seed=res.seed, tier=res.tier, timeout=1500)
    if rc != 0 or bad or not cases:
        res.mismatches.append({"family": "reader", "error": "harness exit %d" % rc, "stderr": err[-2000:], "bad": bad[:3]})
        return
    ties = [c for c in cases if "tie_meetings" in c]
    cases = [c for c in cases if "tie_meetings" not in c]
    for t in ties:
        if t.get("oracle_fail"):
            res.violations.append({"what": t["oracle_fail"], "case": t, "family": "reader/ties", "signature": "reader-tie"})
    res.add_cov(tie_meetings=sum(t["tie_meetings"] for t in ties),
                tie_rule="upload handler and RPC handler entered from a common gate with a random skew of 0..12us either way; every meeting must deliver the uploaded bytes and complete the upload (direct oracle)")
    for c in cases:
        if c.get("oracle_fail"):
            res.violations.append({"what": c["oracle_fail"], "case": slim(c), "family": "reader", "signature": sig(c)})
    # shard: big cases alone
    shards = [[] for _ in range(16)]
    for i, c in enumerate(cases):
        shards[i % 16].append((i, c))
    jobs = []
    for si, sh in enumerate(shards):
        if not sh:
            continue
        src = ("From Coq Require Import List NArith Bool Uint63.\nImport ListNotations.\nOpen Scope N_scope.\n"
               "From JR Require Import Reader AuthCases ReaderCases.\n"
               "Definition cases : list rcase := %s.\nDefinition M := Eval vm_compute in mismatches rcase_ok cases.\nPrint M.\n") % L([term(c) for _, c in sh])
        jobs.append(("cases_C20_%d" % si, src))
    outs = vlib.run_cases_parallel(jobs)
    for (name, rc, out), sh in zip(outs, [s for s in shards if s]):
        mm = vlib.parse_mismatch_list(out) if rc == 0 else None
        if mm is None:
            res.mismatches.append({"family": "reader", "error": "cases file %s did not evaluate" % name, "log": out[-1500:]})
            continue
        for j in mm:
            c = sh[j][1]
            res.mismatches.append({"family": "reader", "case": slim(c), "note": "model (Reader.step) rejects this observed Read/Close sequence or disagrees on upload completion"})
    hist = collections.Counter()
    for c in cases:
        hist["len_%s" % ("0" if c["len"] == 0 else "<=513" if c["len"] <= 513 else "<=4097" if c["len"] <= 4097 else "<=40000" if c["len"] <= 40000 else "big")] += 1
        hist["order_" + c["order"]] += 1
        hist["group_%d" % c["group"]] += 1
        hist["chunked" if c["chunked"] else "sized"] += 1
        for o in c["obs"]:
            hist["obs_" + (o["op"] if o["op"] == "close" else "read_" + (o["err"] or "data"))] += 1
    distinct = len({(c["len"], c["kind"], tuple(c["script"]), c["order"], c["chunked"]) for c in cases if c["len"] > 0 or len(c["script"]) > 1})
    res.add_cov(evaluations=len(cases), distinct_nontrivial=distinct,
                rule="lengths {0,1,2,511..513,4095..4097,32767..32769,1MiB(+1)} x 12 read scripts (ReadAll, read past EOF x3, close, close-then-read, "
                     "partial, loop-until-EOF with 64/4096-byte buffers, byte-at-a-time) x 3 forced arrival orders x chunked/sized upload, plus seeded concurrent "
                     "groups of 2-8 calls; distinct = (len, kind, script, order, chunked); non-trivial = non-empty payload or multi-op script",
                samples=[slim(cases[1]), slim(cases[len(cases) // 2]), slim(cases[-1])], input_histogram=dict(hist),
                traces_validated_against_impl=len(cases) - len(res.mismatches))
    res.assumptions += ["net/http request-body contract (bytes in order, then sticky EOF; error after Close) and chunked streaming: modelled as environment choices of Reader.step, not verified",
                        "google/uuid freshness (c20_isolation is stated over uuids)"]


def slim(c):
    d = dict(c)
    if len(d.get("obs", [])) > 8:
        d["obs"] = d["obs"][:4] + [{"elided": len(d["obs"]) - 8}] + d["obs"][-4:]
    return d


def sig(c):
    return "reader:" + json.dumps({"len": c["len"], "script": c["script"]}, sort_keys=True)


def replay(res, path):
    run(res)
