"""C07 — channel streams ordered, lossless, duplicate-free, independent. Theorems: Props_C07.v (model Stream.v). Correspondence: trace validation of stream scenarios."""
import vlib
import connrun

PROPS = "Props_C07"


def run(res):
    vlib.proof_step(res, PROPS, ["theories/ConnCases.vo", "theories/RespCases.vo", "theories/StreamCases.vo"])
    connrun.run_conn(res, ["stream", "term", "subscript"], with_responder=True, with_streams=True)


def replay(res, path):
    run(res)
