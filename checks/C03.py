"""C03 — no call hangs or gets a foreign result under connection faults. Theorems: Props_C03.v (model Conn.v). Correspondence: trace validation of harness family conn."""
import vlib
import connrun

PROPS = "Props_C03"


def run(res):
    vlib.proof_step(res, PROPS, ["theories/ConnCases.vo"])
    connrun.run_conn(res, ["fault", "stale"])


def replay(res, path):
    run(res)
