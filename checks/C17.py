"""C17 — keepalive keeps healthy links up, detects silent peers in bounded time (partial). Theorems: Props_C17.v (Keepalive.v).
Correspondence: timed hook traces of keepalive scenarios validated against the deadline model; bounds judged as generous multiples."""
import vlib
import connrun

PROPS = "Props_C17"


def run(res):
    vlib.proof_step(res, PROPS, ["theories/ConnCases.vo", "theories/KeepaliveCases.vo"])
    connrun.run_conn(res, ["keepalive"], with_keepalive=True)
    res.assumptions += ["real time, scheduler latency, network latency and gorilla's control-frame processing / deadline semantics are premises (partial)",
                        "time bounds are asserted only as generous multiples of the configured timeout (3T + 1s)"]


def replay(res, path):
    run(res)
