"""C09 — replies conform to JSON-RPC 2.0. Theorems: Props_C09.v. Correspondence: family http-bodies."""
import collections
import json
import vlib
import httpcommon

PROPS = "Props_C09"
FAMILY = "http-bodies"


def violation_search(res, cases, mism, prop_filter=None):
    """direct oracle hits first (on everything observed), then report the mismatching cases"""
    for c in cases:
        if c.get("oracle_fail") and (prop_filter is None or prop_filter(c)):
            res.violations.append({"what": c["oracle_fail"], "case": httpcommon.show(c), "family": FAMILY,
                                   "signature": "http-body:" + bytes.fromhex(c["body"]).decode("utf-8", "replace")})
    for c in mism:
        res.mismatches.append({"family": FAMILY, "case": httpcommon.show(c),
                               "note": "Handle.handle_http (status, reply, invocations) differs from the implementation on this body"})


def coverage(res, cases, extra_rule=""):
    hist = collections.Counter()
    for c in cases:
        hist["kind_" + c["kind"]] += 1
        hist["status_%d" % c["status"]] += 1
        hist["fmt_%d" % c["fmt"]] += 1
        hist["invocations_%d" % min(len(c["invs"]), 3)] += 1
        body = bytes.fromhex(c["body"]).strip()
        hist["batch" if body[:1] == b"[" and body[-1:] == b"]" else "single"] += 1
        rep = bytes.fromhex(c["reply"])
        hist["reply_empty" if not rep.strip() else "reply_error" if b'"error"' in rep else "reply_result"] += 1
    distinct = len({c["body"] + str(c["fmt"]) + str(c["max"]) for c in cases if len(c["body"]) > 8})
    sample = [httpcommon.show(c) for c in (cases[0], cases[len(cases) // 3], cases[len(cases) // 2], cases[-1])]
    res.add_cov(evaluations=len(cases), distinct_nontrivial=distinct, samples=sample, input_histogram=dict(hist),
                rule="JSON-RPC grammar (single/batch 1-5, ids of every JSON type incl. fractions/duplicates/case-changed keys, params absent/null/array/"
                     "object/wrong arity/wrong types, 17 handler shapes, aliases, 5 name formatters, notifications at every batch position) + 22% byte-level "
                     "mutations + a fixed corpus (witnesses of repaired defects first) + size-boundary bodies; through ServeHTTP and HandleRequest. "
                     "distinct = (body, formatter, limit); non-trivial = body longer than 4 bytes. " + extra_rule)


def run(res, props=PROPS, prop_filter=None):
    vlib.proof_step(res, props, ["theories/HttpCases.vo"])
    okb, blog, exe = vlib.build_harness()
    if not okb:
        res.failed_obligations.append(("harness does not build against /repo", blog))
        return None
    rc, cases, err, bad = vlib.run_family(exe, FAMILY, seed=res.seed, tier=res.tier, timeout=1500)
    if rc != 0 or bad or not cases:
        res.mismatches.append({"family": FAMILY, "error": "harness exit %d" % rc, "stderr": err[-2000:], "bad": bad[:3]})
        return None
    mism = httpcommon.correspond(res, cases, FAMILY, name=res.prop)
    violation_search(res, cases, mism, prop_filter)
    coverage(res, cases)
    res.assumptions += ["encoding/json on handler results and float formatting of ids (strconv): ids compared by exact decimal value",
                        "request-body fidelity domain: valid UTF-8, no U+212A/U+017F in member names, id numbers exactly representable in float64",
                        "net/http status plumbing (httptest.ResponseRecorder)"]
    return cases


def replay(res, path):
    run(res)
