"""C01 — remote calls are transparent. Theorems: Props_C01.v (Call.v). Correspondence: family `callpath` — 25 typed
signatures x argument tuples x {http, ws, custom} x formatters against the real client and server; every method records
what it saw. The harness judges each call with the property stated directly (encoding/json itself as the reference round
trip); the calls over the basic type universe are also replayed through Call.call inside Coq."""
import collections
import json
import vlib

PROPS = "Props_C01"

TY = {"int": "TInt", "str": "TStr", "bool": "TBool", "ints": "TIntList", "any": "TAny", "": "TAny"}
SHAPE = {"none": "ShNone", "val": "ShVal", "err": "ShErr", "valerr": "ShValErr"}


def pb(s):
    return vlib.pack_bytes(s.encode())


def term(c):
    return ("{| cc_ctx := %s; cc_params := [%s]; cc_shape := %s; cc_outty := %s; cc_args := [%s]; cc_hret := %s; cc_herr := %s; "
            "cc_invoked := %d; cc_received := [%s]; cc_val := %s; cc_err_nil := %s |}" % (
                vlib.coq_bool(c["ctx"]), "; ".join(TY[p] for p in (c["params"] or [])), SHAPE[c["outs"]], TY[c.get("outty") or ""],
                "; ".join(pb(a) for a in (c["args"] or [])),
                ("Some " + pb(c["hret"])) if c["hret"] else "None", vlib.coq_bool(c["herr"]),
                c["invoked"], "; ".join(pb(a) for a in (c["received"] or [])),
                ("Some " + pb(c["val"])) if c["val"] else "None", vlib.coq_bool(c["err_nil"])))


def show(c):
    d = dict(c)
    for k in ("args", "received"):
        d[k] = [a[:200] for a in (c.get(k) or [])]
    for k in ("hret", "val"):
        d[k] = (c.get(k) or "")[:300]
    return d


def sig(c):
    return "callpath:%s,%s,fmt=%d,args=%s" % (c["method"], c["transport"], c["fmt"], json.dumps([a[:60] for a in (c.get("args") or [])]))


def run(res):
    vlib.proof_step(res, PROPS, ["theories/CallCases.vo"])
    okb, blog, exe = vlib.build_harness()
    if not okb:
        res.failed_obligations.append(("harness does not build against /repo", blog))
        return
    rc, cases, err, bad = vlib.run_family(exe, "callpath", seed=res.seed, tier=res.tier)
    if rc != 0 or bad or not cases:
        res.mismatches.append({"family": "callpath", "error": "harness exit %d" % rc, "stderr": err[-2000:], "bad": bad[:3]})
        return
    for c in cases:
        if c.get("oracle_fail"):
            res.violations.append({"what": "%s over %s: %s" % (c["method"], c["transport"], c["oracle_fail"][:600]), "case": show(c), "family": "callpath", "signature": sig(c)})
    basic = [c for c in cases if c.get("basic")]
    # identical term => identical verdict: evaluate each distinct model case once
    uniq = {}
    for c in basic:
        uniq.setdefault(term(c), []).append(c)
    terms = list(uniq)
    n = 8 if res.tier == "quick" else 16
    shards = [terms[i::n] for i in range(n)]
    shards = [s for s in shards if s]
    hdr = ("From Coq Require Import String.\nFrom Coq Require Import List NArith ZArith Bool Uint63.\nImport ListNotations.\n"
           "From JR Require Import Json Handle Bytes AuthCases Call CallCases.\n")
    jobs = [("cases_C01_%d" % i, hdr + "Definition cases : list ccase := [\n%s\n].\nDefinition M := Eval vm_compute in mismatches ccase_ok cases.\nPrint M.\n" % ";\n".join(sh))
            for i, sh in enumerate(shards)]
    for (nm, rc2, out), sh in zip(vlib.run_cases_parallel(jobs), shards):
        mm = vlib.parse_mismatch_list(out) if rc2 == 0 else None
        if mm is None:
            res.mismatches.append({"family": "callpath", "error": "cases file %s did not evaluate" % nm, "log": out[-1500:]})
            continue
        for j in mm:
            for c in uniq[sh[j]][:3]:
                res.mismatches.append({"family": "callpath", "case": show(c), "note": "observed call differs from Call.call (invocations / received arguments / caller outputs)"})
    hist = collections.Counter(c["method"] for c in cases)
    res.add_cov(evaluations=len(cases),
                distinct_nontrivial=len({(c["method"], json.dumps(c.get("args"))) for c in cases if c.get("args")}),
                rule="27 signatures (0-8 positional parameters, with/without context, results none/value/error/both, raw params, notify) over int/int8/uint16/int64/uint64/"
                     "float32/float64/string/bool/[]byte/[]int/[]string/[2]int/maps/pointers/nested+embedded structs/interface{}/json.RawMessage/custom (Un)Marshaler/"
                     "custom param encoder+decoder; arguments: 64-bit extremes, 2^53+1, -0, 1e308, denormal, nil vs empty slices and maps, nil pointers, nil interface, "
                     "HTML/control/multi-byte strings, 1400-byte strings; x {http, ws, custom} x 5 formatters (quick: 3 formatters, tuples thinned for the non-default ones; "
                     "thorough adds 2400 seeded random tuples per client); non-trivial = at least one argument; %d model-replayed calls (%d distinct)" % (len(basic), len(terms)),
                samples=[show(cases[i]) for i in (5, len(cases) // 4, len(cases) // 2, len(cases) - 3)],
                histogram=dict(hist))
    res.coverage["transports"] = dict(collections.Counter(c["transport"] for c in cases))
    res.assumptions += ["encoding/json (Marshal/Unmarshal/Decoder) and reflect are Go stdlib/runtime: section variables of the model, the reference of the harness oracle",
                        "the Coq replay covers the basic type universe (int, string, bool, []int, interface{}); rich types are judged by the direct oracle only"]


def replay(res, path):
    run(res)
