"""C06 — cancellation reaches exactly the cancelled call's handler. Theorems: Props_C06.v (model Resp.v). Correspondence: trace validation (requester and responder side)."""
import vlib
import connrun

PROPS = "Props_C06"


def run(res):
    vlib.proof_step(res, PROPS, ["theories/ConnCases.vo", "theories/RespCases.vo"])
    connrun.run_conn(res, ["cancel", "perm", "subscript"], with_responder=True)


def replay(res, path):
    run(res)
