"""Shared runner for the requester-LTS checks (C02 C03 C04 C05 C18): harness family `conn`, trace validation in Coq."""
import collections
import json
import vlib
import conncommon


def slim_run(r, around=None):
    evs = r["events"]
    d = {"scenario": r["scenario"], "params": r["params"], "calls": r["calls"] or [], "accepts": r.get("accepts"),
         "all_returned": r.get("all_returned"), "closer_returned": r.get("closer_returned"), "n_events": len(evs)}
    keep = [e for e in evs if e["p"] not in ("reader.msg", "frame.enq", "exec.take", "write.locked", "deadline.reset", "loop.incoming", "nw.acquired")]
    d["events_excerpt"] = ["%d %s %s %s" % (e["seq"], e["c"], e["p"], json.dumps(e["a"])) for e in keep[:60]]
    return d


def run_conn(res, whiches, prop_filter=None, timeout=900, with_responder=False, with_streams=False, with_reverse=False, with_keepalive=False):
    okb, blog, exe = vlib.build_harness()
    if not okb:
        res.failed_obligations.append(("harness does not build against /repo", blog))
        return None
    runs = []
    for w in whiches:
        rc, rs, err, bad = vlib.run_family(exe, "conn", args=[w], seed=res.seed, tier=res.tier, timeout=timeout)
        if rc != 0 or bad or not rs:
            lp = vlib.library_panic(err) if rc != 0 else None
            if lp:
                # the process hosting client and server died of a panic raised inside the library: a concrete failing
                # schedule (the scenario that was running is the one after the last record emitted)
                res.violations.append({"what": "the process running the %s scenarios died inside the library: %s" % (w, lp), "family": "conn/" + w, "kind": "trace",
                                       "case": {"family": w, "seed": res.seed, "tier": res.tier, "scenarios_completed": len(rs), "stderr_tail": err[-1500:]},
                                       "signature": "conn:%s:panic:%s" % (w, lp[:80])})
                runs += rs
                continue
            res.mismatches.append({"family": "conn/" + w, "error": "harness exit %d" % rc, "stderr": err[-2500:], "bad": bad[:3]})
            continue
        runs += rs
    if not runs:
        return None
    for r in runs:
        if r.get("oracle_fail"):
            res.violations.append({"what": r["oracle_fail"], "case": slim_run(r), "family": "conn/" + r["scenario"], "kind": "trace",
                                   "signature": "conn:%s:%s" % (r["scenario"], json.dumps(r["params"], sort_keys=True))})
    ws_runs = [r for r in runs if any(e['c'].startswith('ws-client') for e in r['events'])]   # HTTP scenarios have no connection LTS
    diag_txt = {1: "event not enabled in the model", 2: "call outcomes differ from the model's", 3: "orphan-freedom fails in a visited state"}
    def single_client(r):
        return len({e["c"] for e in r["events"] if e["c"].startswith("ws-client#") and e["p"] == "loop.take"}) <= 1
    bad, items = conncommon.validate(res, [r for r in ws_runs if single_client(r)], res.prop)
    for r, d, i, evs in bad:
        res.mismatches.append({"family": "conn/" + r["scenario"], "params": r["params"], "diag": diag_txt.get(d, d), "at_event": i,
                               "events_around": evs[max(0, i - 8):i + 3],
                               "note": "the recorded trace is not a behaviour of Conn.step (variant repaired_c)"})
    pbad, pn, pe = conncommon.validate_readpipe(res, ws_runs, res.prop)
    for r, c, i, evs in pbad:
        res.mismatches.append({"family": "conn/" + r["scenario"], "params": {k: v for k, v in (r["params"] or {}).items() if k != "streams"},
                               "diag": "reader-pipeline event not enabled in the model (a second frame in the pipeline, a frame executed out of nowhere, a reader that is not re-armed)",
                               "conn": c, "at_event": i, "events_around": evs[max(0, i - 8):i + 3], "note": "the recorded reader events are not a behaviour of ReadPipe.rstep"})
    res.add_cov(readpipe_traces_validated=pn - len(pbad), readpipe_events=pe)
    if with_keepalive:
        kbad, kitems = conncommon.validate_keepalive(res, ws_runs, res.prop)
        ktxt = {1: "the deadline model (fires T after the last re-arming, never before) disagrees with the observed reader error / its absence",
                2: "a deadline reset without evidence that the peer is alive",
                3: "the read deadline is armed with a timeout other than the configured one (the T of the model)"}
        for r, d, i in kbad:
            res.mismatches.append({"family": "conn/keepalive", "params": r["params"], "diag": ktxt.get(d, d), "at_event": i})
        res.add_cov(keepalive_timed_traces_validated=len(kitems) - len(kbad))
    if with_reverse:
        # the server's wsConn is the requester of reverse calls: same LTS, roles swapped
        rv = []
        for r in ws_runs:
            lb = conncommon.reverse_labels(r)
            if lb:
                r2 = dict(r)
                r2["events"] = [e for e in r["events"] if not (e["c"] == "harness" and e["p"] == "call.return")]
                rv.append((r, lb))
        import re as _re
        if rv:
            items2 = [(r, conncommon.requester_events({**r, "events": [e for e in r["events"] if e["c"] != "harness"]}, conn=lb[0], client=lb[1])) for r, lb in rv]
            src = conncommon.HEADER + "Definition cases : list tcase := [\n%s\n].\nDefinition D := Eval vm_compute in map tcase_diag cases.\nPrint D.\n" % ";\n".join(conncommon.tcase_term(e, []) for _, (e, o, t) in items2)
            rc2, out2 = vlib.run_cases("cases_%s_rev" % res.prop, src)
            m2 = _re.search(r"D\s*=\s*(.*?)\n\s*:\s", out2, flags=_re.S) if rc2 == 0 else None
            pairs2 = _re.findall(r"\(\s*(\d+),\s*(\d+)\s*\)", m2.group(1)) if m2 else None
            if pairs2 is None or len(pairs2) != len(items2):
                res.mismatches.append({"family": "conn/reverse", "error": "reverse requester cases did not evaluate", "log": out2[-1200:]})
            else:
                for (d, i), (r, (evs, o, t)) in zip(pairs2, items2):
                    if int(d) != 0:
                        res.mismatches.append({"family": "conn/reverse", "params": r["params"], "diag": diag_txt.get(int(d), d), "at_event": int(i),
                                               "events_around": evs[max(0, int(i) - 8):int(i) + 3], "note": "server-side requester trace of the reverse calls is not a behaviour of Conn.step"})
                res.add_cov(reverse_requester_traces_validated=len(items2))
    if with_responder:
        rbad, ritems = conncommon.validate_responder(res, ws_runs, res.prop)
        rtxt = {1: "event not enabled in the responder model", 2: "the connection ended but the trace never reaches the all-cancelled state"}
        for r, d, i, evs in rbad:
            res.mismatches.append({"family": "conn/" + r["scenario"], "params": r["params"], "diag": rtxt.get(d, d), "at_event": i,
                                   "events_around": evs[max(0, i - 8):i + 3], "note": "the recorded trace is not a behaviour of Resp.rstep"})
        res.add_cov(responder_traces_validated=len(ritems) - len(rbad), responder_events=sum(len(e) for _, e in ritems))
    if with_streams:
        sbad, sitems = conncommon.validate_streams(res, ws_runs, res.prop)
        stxt = {1: "event not enabled in the stream model", 2: "prefix chain violated"}
        for r, d, i, evs in sbad:
            res.mismatches.append({"family": "conn/" + r["scenario"], "params": {k: v for k, v in r["params"].items() if k != "streams"},
                                   "diag": stxt.get(d, d), "at_event": i, "events_around": evs[max(0, i - 10):i + 3],
                                   "note": "the recorded trace is not a behaviour of Stream.sstep"})
        res.add_cov(stream_traces_validated=len(sitems) - len(sbad), stream_events=sum(len(e) for _, e in sitems))
        fbad, fn, fe = conncommon.validate_forwarder(res, ws_runs, res.prop)
        for r, conn, i, evs in fbad:
            res.mismatches.append({"family": "conn/" + r["scenario"], "params": {k: v for k, v in r["params"].items() if k != "streams"},
                                   "diag": "a value went out under another channel id than the forwarder model (swap-remove on both slices) computes",
                                   "server_conn": conn, "at_event": i, "events_around": evs[max(0, i - 10):i + 3],
                                   "note": "the recorded forwarder events are not a behaviour of Forwarder.step"})
        res.add_cov(forwarder_traces_validated=fn - len(fbad), forwarder_events=fe)
    hist = collections.Counter()
    nev = 0
    for r, evs, outs in items:
        hist["scenario_" + r["scenario"]] += 1
        nev += len(evs)
        for e in evs:
            hist["ev_" + e.split()[0]] += 1
        for c in r["calls"] or []:
            hist["outcome_" + c["outcome"].split(":")[0]] += 1
    distinct = len({json.dumps([e for e in evs], sort_keys=True) for _, evs, _ in items if len(evs) > 6})
    res.add_cov(evaluations=len(runs), distinct_nontrivial=distinct, traces_validated_against_impl=len(runs) - len(bad),
                model_events=nev, input_histogram=dict(hist),
                samples=[slim_run(runs[0]), slim_run(runs[len(runs) // 2]), slim_run(runs[-1])],
                rule="scenario families " + ", ".join(whiches) + ": real client <-> fault proxy <-> real server with hooks as trace points, gates and seeded delays; "
                     "every run's linearised hook trace is replayed through Conn.step inside Coq (every event must be enabled, final outcomes must agree, "
                     "orphan-freedom is evaluated in every visited state) and judged by a model-independent oracle (returned exactly once, own result, "
                     "execution counts, closer returns, no dial after close). distinct = distinct model-event sequences longer than 6 events")
    res.assumptions += ["Go scheduler below hook granularity (hooks sit inside the critical sections that order the events they report)",
                        "gorilla/websocket framing and error reporting; TCP behaviour after FIN/RST (the model lets a write on a dead link succeed or fail)",
                        "liveness of the environment (the peer answers; a dead socket is eventually reported to the reader) is not modelled: 'returns' is proved as orphan-freedom"]
    return runs
