"""C05 — reconnecting clients heal; retry-tagged calls ride out outages. Theorems: Props_C05.v (Backoff.v, Conn.v).
Correspondence: family backoff (exact-rational model vs float64 result) + conn outage/fault scenarios (trace validation)."""
import vlib
import connrun

PROPS = "Props_C05"


def run(res):
    vlib.proof_step(res, PROPS, ["theories/ConnCases.vo", "theories/BackoffCases.vo"])
    runs = connrun.run_conn(res, ["outage", "fault", "stale"])
    exe = vlib.build_harness()[2]
    rc, cases, err, bad = vlib.run_family(exe, "backoff", seed=res.seed, tier=res.tier)
    if rc != 0 or bad or not cases:
        res.mismatches.append({"family": "backoff", "error": "harness exit %d" % rc, "stderr": err[-1500:]})
        return
    for c in cases:
        if c.get("oracle_fail"):
            res.violations.append({"what": c["oracle_fail"] + " (min=%dns max=%dns attempt=%d -> %dns)" % (c["min"], c["max"], c["attempt"], c["got"]),
                                   "case": c, "family": "backoff", "signature": "backoff:attempt=%d,min=%d,max=%d" % (c["attempt"], c["min"], c["max"])})
    terms = ["{| bc_min := %d; bc_max := %d; bc_attempt := (%d); bc_jit := %d; bc_got := (%d) |}" % (c["min"], c["max"], c["attempt"], c["jit_num"], c["got"]) for c in cases]
    shards = [list(range(len(cases)))[i::8] for i in range(8)]
    jobs = [("cases_C05b_%d" % i, "From Coq Require Import List ZArith NArith.\nImport ListNotations.\nFrom JR Require Import Backoff AuthCases BackoffCases.\nOpen Scope Z_scope.\n"
             "Definition cases : list bcase := [\n%s\n].\nDefinition M := Eval vm_compute in mismatches bcase_ok cases.\nPrint M.\n" % ";\n".join(terms[j] for j in sh)) for i, sh in enumerate(shards) if sh]
    for (nm, rc2, out), sh in zip(vlib.run_cases_parallel(jobs), [s for s in shards if s]):
        mm = vlib.parse_mismatch_list(out) if rc2 == 0 else None
        if mm is None:
            res.mismatches.append({"family": "backoff", "error": "cases file %s did not evaluate" % nm, "log": out[-1200:]})
            continue
        for j in mm:
            res.mismatches.append({"family": "backoff", "case": cases[sh[j]], "note": "Backoff.next (exact rationals) and backoff.next (float64) differ by more than 1ns + 1e-9 relative"})
    cov = res.coverage
    cov["backoff_points"] = len(cases)
    cov["evaluations"] = cov.get("evaluations", 0) + len(cases)
    cov["distinct_nontrivial"] = cov.get("distinct_nontrivial", 0) + len({(c["min"], c["max"], c["attempt"]) for c in cases if c["attempt"] >= 0})
    cov["rule"] = cov.get("rule", "") + " | backoff: attempts -2..300 (1200 thorough) x 7 (min,max) pairs, jitter in lock-step through rand.Seed, compared with the exact rational model"
    cov["samples"] = cov.get("samples", [])[:2] + [cases[min(5, len(cases) - 1)], cases[min(70, len(cases) - 1)]]
    res.assumptions += ["float64 rounding and math.Pow (tolerance 1ns + 1e-9 relative); real sleeping is not observed, dial spacing is measured at the proxy with 20% slack"]


def replay(res, path):
    run(res)
