"""C08 — every client channel terminates, closed once, prefix only. Theorems: Props_C08.v (model Stream.v). Correspondence: trace validation of stream scenarios."""
import vlib
import connrun

PROPS = "Props_C08"


def run(res):
    vlib.proof_step(res, PROPS, ["theories/ConnCases.vo", "theories/RespCases.vo", "theories/StreamCases.vo"])
    connrun.run_conn(res, ["term", "stream", "subscript"], with_responder=True, with_streams=True)


def replay(res, path):
    run(res)
