"""C16 — reverse calls reach the calling client and fail once it is gone. Theorems: Props_C16.v (Conn.v with roles swapped,
Handle.v dispatch on the client-side table). Correspondence: reverse scenarios (identity tokens, cuts) + trace validation."""
import vlib
import connrun

PROPS = "Props_C16"


def run(res):
    vlib.proof_step(res, PROPS, ["theories/ConnCases.vo"])
    connrun.run_conn(res, ["reverse"], with_reverse=True)


def replay(res, path):
    run(res)
