"""C12 — dispatch by formatted name, then alias; arity/type errors never run a handler. Theorems: Props_C12.v.
Correspondence: http-bodies (arity 0..k+2, every JSON shape per parameter type, aliases, 5 formatters) and the
exhaustive `dispatch` universe."""
import json
import C09
import vlib
import httpcommon

PROPS = "Props_C12"


def run(res):
    cases = C09.run(res, props=PROPS)
    if cases is None:
        return
    exe = vlib.build_harness()[2]
    rc, dcases, err, bad = vlib.run_family(exe, "dispatch", seed=res.seed, tier=res.tier, timeout=900)
    if rc != 0 or bad or not dcases:
        res.mismatches.append({"family": "dispatch", "error": "harness exit %d" % rc, "stderr": err[-2000:], "bad": bad[:3]})
        return
    rev = [c for c in dcases if c.get("reverse_naming")]
    dcases = [c for c in dcases if not c.get("reverse_naming")]
    for c in rev:
        if c.get("oracle_fail"):
            res.violations.append({"what": c["oracle_fail"], "case": c, "family": "dispatch/reverse", "signature": "dispatch-reverse:%d:%s" % (c["fmt"], c["reverse_option_first"])})
    res.add_cov(reverse_naming_cases=len(rev))
    for c in dcases:
        if c.get("oracle_fail"):
            res.violations.append({"what": c["oracle_fail"], "case": c, "family": "dispatch", "signature": "dispatch:" + json.dumps({k: c[k] for k in ("regs", "fmt", "aliases", "name")}, sort_keys=True)})
    shards = [dcases[i::16] for i in range(16)]
    shards = [s for s in shards if s]
    jobs = []
    for si, sh in enumerate(shards):
        terms = []
        for c in sh:
            regs = "[" + "; ".join("(%s, %d%%N)" % (vlib.pack_bytes(r["ns"].encode()), r["type"]) for r in c["regs"]) + "]"
            als = "[" + "; ".join("(%s, %s)" % (vlib.pack_bytes(a[0].encode()), vlib.pack_bytes(a[1].encode())) for a in c["aliases"]) + "]"
            terms.append("{| dc_fmt := %s; dc_regs := %s; dc_aliases := %s; dc_name := %s; dc_ran := %s; dc_code := %d%%Z |}" % (
                httpcommon.FMT[c["fmt"]], regs, als, vlib.pack_bytes(c["name"].encode()), vlib.pack_bytes(c["ran"].encode()), c["code"]))
        src = httpcommon.HEADER + "From JR Require Import DispatchCases.\nDefinition cases : list dcase := [\n%s\n].\nDefinition M := Eval vm_compute in mismatches dcase_ok cases.\nPrint M.\n" % ";\n".join(terms)
        jobs.append(("cases_C12d_%d" % si, src))
    for (nm, rc2, out), sh in zip(vlib.run_cases_parallel(jobs), shards):
        mm = vlib.parse_mismatch_list(out) if rc2 == 0 else None
        if mm is None:
            res.mismatches.append({"family": "dispatch", "error": "cases file %s did not evaluate" % nm, "log": out[-1500:]})
            continue
        for j in mm:
            res.mismatches.append({"family": "dispatch", "case": sh[j], "note": "Handle.resolve over the register/alias sequence disagrees with which handler ran"})
    cov = res.coverage
    cov["dispatch_evaluations"] = len(dcases)
    cov["dispatch_exhaustive"] = True
    cov["evaluations"] = cov.get("evaluations", 0) + len(dcases)
    cov["distinct_nontrivial"] = cov.get("distinct_nontrivial", 0) + len({json.dumps(c, sort_keys=True) for c in dcases if c["regs"]})
    cov["rule"] = cov.get("rule", "") + " | dispatch: exhaustive over namespaces {A,B,empty} x 2 handler types x registration sequences of length <= 2 x 5 formatters x 4 alias tables x every candidate name of the universe"
    cov["samples"] = cov.get("samples", [])[:3] + [dcases[len(dcases) // 2], dcases[-1]]
    res.assumptions.append("method names are Go exported ASCII identifiers (strings.ToLower on a multi-byte first rune is outside the model); reflect method enumeration")


def replay(res, path):
    run(res)
