"""C13 — a panicking handler fails only its own call. Theorems: Props_C13.v. Correspondence: http-bodies
(7 panic payload kinds, single and inside batches next to healthy calls, escaped panics recorded)."""
import C09
import C10

PROPS = "Props_C13"


def run(res):
    cases = C09.run(res, props=PROPS)
    if cases is not None:
        n = sum(1 for c in cases if any(i["name"].startswith("Panic") for i in c["invs"]))
        res.add_cov(panicking_handler_runs=n)
        # over WebSocket: H.Panic frames with and without ids among other calls, a subscription and an in-flight call on the
        # same connection; R.Panic frames to a client whose own (reverse) handler panics; the process must survive and keep
        # answering (worker subprocess), the panicking call alone gets the error
        C10.ws_frames(res)
        res.assumptions.append("Go's recover semantics; runtime-fatal errors (concurrent map write, stack overflow) are not recoverable panics and out of scope")


def replay(res, path):
    run(res)
