"""C13 — a panicking handler fails only its own call. Theorems: Props_C13.v. Correspondence: http-bodies
(7 panic payload kinds, single and inside batches next to healthy calls, escaped panics recorded)."""
import C09
import C10

PROPS = "Props_C13"


def run(res):
    cases = C09.run(res, props=PROPS)
    if cases is not None:
        n = sum(1 for c in cases if any(i["name"].startswith("Panic") for i in c["invs"]))
        res.add_cov(panicking_handler_runs=n)
        # over WebSocket: H.Panic frames with and without ids among other calls, a subscription and an in-flight call on the
        # same connection; R.Panic frames to a client whose own (reverse) handler panics; the process must survive and keep
        # answering (worker subprocess), the panicking call alone gets the error
        C10.ws_frames(res)
        storm(res)
        res.assumptions.append("Go's recover semantics; a handler that itself brings the runtime down (stack exhaustion, its own data race on a map) is not a recoverable panic and out of scope; "
                               "what the library's own recovery path does while many handlers panic together is in scope (ws-storm)")


def storm(res):
    """many handlers panicking at the same moment over several WebSocket connections, through distinct method names and through
    one; the server is hosted by a worker subprocess (its death is observed); judged by the direct oracle"""
    import json
    import vlib
    exe = vlib.build_harness()[2]
    rc, obs, err, bad = vlib.run_family(exe, "ws-storm", seed=res.seed, tier=res.tier, timeout=600)
    if rc != 0 or bad or not obs:
        res.mismatches.append({"family": "ws-storm", "error": "harness exit %d" % rc, "stderr": err[-2000:], "bad": bad[:3]})
        return
    for o in obs:
        if o.get("oracle_fail"):
            res.violations.append({"what": o["oracle_fail"], "family": "ws-storm", "case": o,
                                   "signature": "ws-storm:%s:%d:%d" % (o["names"], o["conns"], o["group"])})
    rc, tobs, err, bad = vlib.run_family(exe, "panic-typed", seed=res.seed, tier=res.tier, timeout=300)
    if rc != 0 or bad or not tobs:
        res.mismatches.append({"family": "panic-typed", "error": "harness exit %d" % rc, "stderr": err[-2000:], "bad": bad[:3]})
    for o in tobs or []:
        if o.get("oracle_fail"):
            res.violations.append({"what": o["oracle_fail"], "family": "panic-typed", "case": o, "signature": "panic-typed:%s:%s" % (o["transport"], o["method"])})
    res.add_cov(panic_through_real_client_with_error_table=len(tobs or []))
    cov = res.coverage
    n = sum(o["conns"] * o["per_conn"] for o in obs)
    cov["concurrent_panic_calls"] = n
    cov["concurrent_panic_runs"] = [{k: o[k] for k in ("conns", "per_conn", "group", "names", "error_replies", "probes_ok", "crashed")} for o in obs]
    cov["evaluations"] = cov.get("evaluations", 0) + n
    cov["rule"] = cov.get("rule", "") + " | ws-storm: groups of handlers panic at the same moment over several connections (distinct aliases / one name); every call must get its own panic error, a healthy call succeeds afterwards on each connection, the hosting process survives"


def replay(res, path):
    run(res)
