"""C02 — each concurrent call completes exactly once with its own response. Theorems: Props_C02.v (model Conn.v). Correspondence: trace validation of harness family conn."""
import vlib
import connrun

PROPS = "Props_C02"


def run(res):
    vlib.proof_step(res, PROPS, ["theories/ConnCases.vo"])
    connrun.run_conn(res, ["perm", "cancel"])


def replay(res, path):
    run(res)
