"""Translation of recorded hook traces (harness family `conn`) into events of the requester LTS (Conn.v)."""
import json
import vlib

OUT = {"ok": "OGenuine", "handler-error": "OGenuine", "ok-cancelled": "OGenuine", "connerr": "OConnErr", "exiting": "OExiting"}
BUILTIN = ("xrpc.cancel", "xrpc.ch.val", "xrpc.ch.close")


def nid(x):
    if isinstance(x, bool) or x is None:
        return None
    if isinstance(x, (int, float)) and float(x).is_integer() and x >= 0:
        return int(x)
    return None


def main_labels(run):
    """Goroutines of an earlier scenario may still hit a hook or two after the next scenario's tracer is installed and so
    take the first label numbers; the connection objects of *this* run are the ones with (by far) the most events."""
    import collections
    # a pinger that outlives its scenario (the client's pinger of a redialled connection is not stopped by the loop's
    # deferred stopPings, which was bound to the first connection's: noted in DESIGN.md, outside the listed properties)
    # keeps emitting ping.send / write.locked for ever: such events do not make a connection "this run's"
    cnt = collections.Counter(e["c"] for e in run["events"] if e["p"] not in ("ping.send", "write.locked"))
    def best(prefix, default):
        c = [(n, l) for l, n in cnt.items() if l.startswith(prefix)]
        return max(c)[1] if c else default
    # a reverse client (server side, namespace R) is not the forward client
    rev = {e["c"] for e in run["events"] if e["p"] == "call.start" and str((e["a"] or [None, ""])[1]).startswith(("R.", "R_", "r.", "Who", "who", "AliasWho"))}
    fwd = [(n, l) for l, n in cnt.items() if l.startswith("client#") and l not in rev]
    client = max(fwd)[1] if fwd else best("client#", "client#1")
    return best("ws-client#", "ws-client#1"), client, best("ws-server#", "ws-server#1")


def requester_events(run, conn=None, client=None):
    """returns (list of Coq ev terms, outcomes list [(id, outcome)], notes)"""
    ml = main_labels(run)
    conn = conn or ml[0]
    client = client or ml[1]
    evs = []
    tok2id = {}
    outcomes = {}
    pending_attempt = None
    min_backoff_ns = (run.get("params") or {}).get("backoff_min_ns", 0) or 0
    for e in run["events"]:
        p, c, a = e["p"], e["c"], e["a"] or []
        if c == client:
            if p == "call.start":
                i = nid(a[0])
                if i is None:
                    continue                      # notification: anonymous in the model
                args = a[4] if len(a) > 4 else []
                if args:
                    tok2id[args[0]] = i
                if i in outcomes or ("CallStart %d" % i) in " ".join(evs[-0:]) and False:
                    pass
                if not any(x.startswith("CallStart %d " % i) for x in evs):
                    evs.append("CallStart %d %s" % (i, "true" if a[2] else "false"))
            elif p == "call.recv":
                i = nid(a[0])
                if i is not None:
                    evs.append("CallRecv %d %s" % (i, "true" if a[2] else "false"))
            elif p == "call.exiting":
                i = nid(a[0])
                if i is not None:
                    evs.append("CallExiting %d" % i)
            elif p == "call.retry":
                i = nid(a[0])
                if i is not None:
                    evs.append("CallRetry %d" % i)
        elif c == conn:
            if p == "loop.take":
                i = nid(a[1])
                evs.append("LoopTake %d" % i if i is not None and a[0] not in BUILTIN else "LoopTakeOther")
            elif p == "loop.failfast":
                evs.append("LoopFailFast %d" % nid(a[0]))
            elif p == "loop.register":
                evs.append("LoopRegister %d" % nid(a[0]))
            elif p == "loop.sent":
                i = nid(a[1])
                evs.append("LoopSent %d %s" % (i, "true" if a[2] else "false") if i is not None and a[0] not in BUILTIN else "LoopSentOther")
            elif p == "resp.lookup.l":
                i = nid(a[0])
                if i is not None:
                    evs.append("ExecLookup %d %s" % (i, "true" if a[1] else "false"))
            elif p == "resp.deliver":
                evs.append("ExecDeliver %d" % nid(a[0]))
            elif p == "resp.deleted":
                evs.append("ExecDeleted %d %s" % (nid(a[0]), "true" if a[1] else "false"))
            elif p == "resp.abandon":
                i = nid(a[0])
                if i is not None:
                    evs.append("ExecAbandon %d" % i)
            elif p == "cif.deliver":
                evs.append("CifDeliver %d" % nid(a[0]))
            elif p == "cif.cleared":
                evs.append("CifCleared")
            elif p == "reconn.begin":
                evs.append("ReconnBegin")
            elif p == "redial.swap":
                evs.append("RedialSwap")
            elif p == "loop.exit":
                if pending_attempt is not None:
                    evs.append("RedialAttempt %d" % pending_attempt[0])      # announced, no dial made before the exit
                    pending_attempt = None
                evs.append("LoopExit")
            elif p == "redial.attempt":
                # the announcement counts as the model's RedialAttempt only if the backoff sleep it announces is then
                # really observed: the dial that follows must come at least 0.8 x the configured minimum later
                pending_attempt = (int(a[0]), e.get("t", 0))
            elif p == "redial.dialed":
                if pending_attempt is not None:
                    if e.get("t", 0) - pending_attempt[1] >= 0.8 * min_backoff_ns:
                        evs.append("RedialAttempt %d" % pending_attempt[0])
                    pending_attempt = None
                evs.append("RedialDialed %s" % ("true" if a[0] else "false"))
        elif c == "harness" and p == "call.return":
            tok, out = a[0], a[1]
            if tok in tok2id and out in OUT:
                evs.append("CallReturn %d %s" % (tok2id[tok], OUT[out]))
                outcomes[tok2id[tok]] = OUT[out]
    return evs, sorted(outcomes.items()), tok2id


def tcase_term(evs, outcomes):
    return "{| tc_events := [%s]; tc_outcomes := [%s] |}" % ("; ".join(evs), "; ".join("(%d, %s)" % (i, o) for i, o in outcomes))


HEADER = "From Coq Require Import List NArith Bool.\nImport ListNotations.\nFrom JR Require Import Conn AuthCases ConnCases.\nOpen Scope N_scope.\n"


def validate(res, runs, name, family="conn", shards=16):
    """returns list of (run, diag, index) for runs the model does not accept"""
    items = []
    for r in runs:
        evs, outs, t2i = requester_events(r)
        items.append((r, evs, outs))
    groups = [items[i::shards] for i in range(shards)]
    groups = [g for g in groups if g]
    jobs = []
    for si, g in enumerate(groups):
        src = HEADER + "Definition cases : list tcase := [\n%s\n].\nDefinition D := Eval vm_compute in map tcase_diag cases.\nPrint D.\n" % ";\n".join(tcase_term(e, o) for _, e, o in g)
        jobs.append(("cases_%s_%d" % (name, si), src))
    bad = []
    import re
    for (nm, rc, out), g in zip(vlib.run_cases_parallel(jobs), groups):
        m = re.search(r"D\s*=\s*(.*?)\n\s*:\s", out, flags=re.S) if rc == 0 else None
        if not m:
            res.mismatches.append({"family": family, "error": "cases file %s did not evaluate" % nm, "log": out[-1500:]})
            continue
        pairs = re.findall(r"\(\s*(\d+),\s*(\d+)\s*\)", m.group(1))
        if len(pairs) != len(g):
            res.mismatches.append({"family": family, "error": "cases file %s: %d results for %d cases" % (nm, len(pairs), len(g))})
            continue
        for (d, i), (r, evs, outs) in zip(pairs, g):
            if int(d) != 0:
                bad.append((r, int(d), int(i), evs))
    return bad, items


# ---------------------------------------------------------------- responder (Resp.v)

def responder_events(run, sconn=None, cconn=None, client=None):
    ml = main_labels(run)
    sconn, cconn, client = sconn or ml[2], cconn or ml[0], client or ml[1]
    evs = []
    tok2id = {}
    for e in run["events"]:
        p, c, a = e["p"], e["c"], e["a"] or []
        if c == client and p == "call.start":
            args = a[4] if len(a) > 4 else []
            if args:
                tok2id[args[0]] = nid(a[0])
    # a cancellation is announced by an observation point *before* the library cancels the contexts (so that a handler
    # can never be seen cancelled before its cause) and, where there is one, closed by a point after it; a handler whose
    # context is sampled as live between the two is not evidence of anything: such samples are left out
    win_all = 0            # open windows that cover every handler (closeInFlight, external shutdown, loop exit)
    win_id = set()         # ids whose own cancel request is being carried out
    for e in run["events"]:
        p, c, a = e["p"], e["c"], e["a"] or []
        if c == sconn and p == "cif.cancelling":
            win_all += 1
        elif c == sconn and p == "cif.cancelled":
            win_all = max(0, win_all - 1)
        elif c == sconn and p == "loop.exit":
            win_all += 1000          # the connection context is cancelled by a deferred call after this point: never closed
        elif c == "harness" and p == "srv.cancel":
            win_all += 1
        elif c == "harness" and p == "srv.cancelled":
            win_all = max(0, win_all - 1)
        elif c == sconn and p == "cancel.recv" and len(a) > 1 and a[1]:
            win_id.add(nid(a[0]))
        elif c == sconn and p == "cancel.done":
            win_id.discard(nid(a[0]))
        if c == "harness" and p == "ctx.cancel":
            # the caller's intent as the harness knows it (not as the library reports it)
            i = tok2id.get(a[0])
            if i is not None:
                evs.append("CallerCancel %d" % i)
        elif c == sconn:
            if p == "call.register":
                evs.append("SRegister %d" % nid(a[0]))
            elif p == "call.done":
                i = nid(a[0])
                if i is not None:
                    evs.append("SDone %d %s" % (i, "true" if a[1] else "false"))
            elif p == "cancel.recv":
                i = nid(a[0])
                if i is not None:
                    evs.append("SCancelRecv %d %s" % (i, "true" if a[1] else "false"))
            elif p == "cif.cancelling":
                evs.append("SCifCancelled")
            elif p == "loop.exit":
                evs.append("SExit")
        elif c == "harness":
            if p == "srv.cancel":
                evs.append("SCtxCancelled")
            elif p == "h.ctxdone":
                tok = a[0]
                if tok in tok2id:
                    i = tok2id[tok]
                    evs.append("HCtxDone %d" % i if i is not None else "HCtxDoneNote")
            elif p == "h.end" and len(a) > 1 and a[1] is False:
                tok = a[0]
                if tok2id.get(tok) is not None and win_all == 0 and tok2id[tok] not in win_id:
                    evs.append("HEndLive %d" % tok2id[tok])
    return evs


RHEADER = "From Coq Require Import List NArith Bool.\nImport ListNotations.\nFrom JR Require Import Resp AuthCases RespCases.\nOpen Scope N_scope.\n"


def validate_responder(res, runs, name, family="conn"):
    import re
    def one_server_conn(r):
        return len({e["c"] for e in r["events"] if e["c"].startswith("ws-server#") and e["p"] in ("call.register", "call.dispatch")}) <= 1
    items = [(r, responder_events(r)) for r in runs if one_server_conn(r)]
    if not items:
        return [], items
    groups = [items[i::8] for i in range(8)]
    groups = [g for g in groups if g]
    jobs = [("cases_%sr_%d" % (name, si), RHEADER + "Definition cases : list (list rev * bool) := [\n%s\n].\nDefinition D := Eval vm_compute in map (fun c => rcase_diag_end (fst c) (snd c)) cases.\nPrint D.\n"
             % ";\n".join("([" + "; ".join(evs) + "], %s)" % ("true" if r["scenario"] == "connend" else "false") for r, evs in g)) for si, g in enumerate(groups)]
    bad = []
    for (nm, rc, out), g in zip(vlib.run_cases_parallel(jobs), groups):
        m = re.search(r"D\s*=\s*(.*?)\n\s*:\s", out, flags=re.S) if rc == 0 else None
        pairs = re.findall(r"\(\s*(\d+),\s*(\d+)\s*\)", m.group(1)) if m else None
        if pairs is None or len(pairs) != len(g):
            res.mismatches.append({"family": family, "error": "cases file %s did not evaluate" % nm, "log": out[-1500:]})
            continue
        for (d, i), (r, evs) in zip(pairs, g):
            if int(d) != 0:
                bad.append((r, int(d), int(i), evs))
    return bad, items


# ---------------------------------------------------------------- streams (Stream.v)

def ival(x):
    """stream element as the model's value: an int, or the Seq of a struct element"""
    if isinstance(x, dict):
        x = x.get("Seq")
    return x if isinstance(x, int) and not isinstance(x, bool) else -1     # -1: not a value any producer offers


def stream_events(run, client=None, cconn=None):
    """events keyed by the subscription's token; channel ids are resolved through och.alloc / resp.chreg"""
    ml = main_labels(run)
    client, cconn = client or ml[1], cconn or ml[0]
    tok_of_id = {}
    for e in run["events"]:
        if e["c"] == client and e["p"] == "call.start" and (e["a"][1] or "").endswith(("Sub", "SubS", "SubOnly")):
            args = e["a"][4] if len(e["a"]) > 4 else []
            i = nid(e["a"][0])
            if args and i is not None:
                tok_of_id[i] = args[0]
    any_req = {nid(e["a"][0]) for e in run["events"] if e["c"] == client and e["p"] == "call.start" and (e["a"][1] or "").endswith("SubAny")}
    srv_any, cli_any = set(), set()      # channels of interface-typed streams: not modelled (direct oracle only)
    srv_ch = {}      # (server conn, chid) -> token
    cli_ch = {}      # chid -> token (current registration on the client)
    pending = []     # tokens of ch.val callbacks whose sink.val is still to come (the executor is sequential)
    out = []
    for e in run["events"]:
        p, c, a = e["p"], e["c"], e["a"] or []
        if c == "harness":
            if p == "prod.try":
                out.append("(%d, ProdTry %d)" % (a[0], a[1]))
            elif p == "prod.send":
                out.append("(%d, ProdSent)" % a[0])
            elif p == "prod.close":
                out.append("(%d, ProdClose)" % a[0])
            elif p == "cons.recv":
                out.append("(%d, ConsRecv %d)" % (a[0], a[1]))
            elif p == "cons.closed":
                out.append("(%d, ConsClosed)" % a[0])
            elif p == "ctx.cancel" and a[0] in tok_of_id.values():
                out.append("(%d, CtxCancel)" % a[0])
        elif c.startswith("ws-server#"):
            if p == "och.alloc":
                t = tok_of_id.get(nid(a[1]))
                if nid(a[1]) in any_req:
                    srv_any.add((c, nid(a[0])))
                    srv_ch.pop((c, nid(a[0])), None)
                elif t is not None:
                    srv_any.discard((c, nid(a[0])))
                    srv_ch[(c, nid(a[0]))] = t
                    out.append("(%d, OchAlloc)" % t)
            elif p in ("och.reg", "och.val.v", "och.close"):
                if (c, nid(a[0])) in srv_any:
                    continue
                t = srv_ch.get((c, nid(a[0])))
                if t is None:
                    out.append("(999999, OchVal 0)")      # a forwarder event for a channel id nobody allocated: not a behaviour
                elif p == "och.reg":
                    out.append("(%d, OchReg)" % t)
                elif p == "och.val.v":
                    out.append("(%d, OchVal %d)" % (t, ival(a[1])))
                else:
                    out.append("(%d, OchClose)" % t)
        elif c == cconn:
            if p == "resp.chreg":
                t = tok_of_id.get(nid(a[1]))
                if nid(a[1]) in any_req:
                    cli_any.add(nid(a[0]))
                    cli_ch.pop(nid(a[0]), None)
                elif t is not None:
                    cli_any.discard(nid(a[0]))
                    cli_ch[nid(a[0])] = t
                    out.append("(%d, ChReg)" % t)
            elif p in ("ch.val", "ch.close", "cc.close"):
                if nid(a[0]) in cli_any:
                    if p == "ch.val":
                        pending = ["skip"]
                    continue
                t = cli_ch.get(nid(a[0]))
                if t is None:
                    out.append("(999999, ChVal)")
                elif p == "ch.val":
                    out.append("(%d, ChVal)" % t)
                    pending = [t]
                elif p == "ch.close":
                    out.append("(%d, ChClose)" % t)
                else:
                    out.append("(%d, CcClose)" % t)
        elif c == client and p == "sink.val":
            if pending == ["skip"]:
                pending = []
            elif pending:
                out.append("(%d, SinkVal %d)" % (pending[0], ival(a[0])))
                pending = []
            else:
                out.append("(999999, SinkVal %d)" % ival(a[0]))
    return out


SHEADER = "From Coq Require Import List NArith ZArith Bool.\nImport ListNotations.\nFrom JR Require Import Stream AuthCases StreamCases.\nOpen Scope Z_scope.\n"


def validate_streams(res, runs, name, family="conn"):
    import re
    items = [(r, stream_events(r)) for r in runs]
    # a trace of tens of thousands of stream events (the stalled-subscriber scenario with 9000 values) is too large a Coq
    # term to parse; such a run is judged by the direct oracle only
    big = [r for r, e in items if e and len(e) > 15000]
    if big:
        res.add_cov(oversized_stream_traces_not_replayed=len(big))
    items = [(r, e) for r, e in items if e and len(e) <= 15000]
    if not items:
        return [], items
    groups = [items[i::16] for i in range(16)]
    groups = [g for g in groups if g]
    jobs = [("cases_%ss_%d" % (name, si), SHEADER + "Definition cases : list (list (N * sev)) := [\n%s\n].\nDefinition D := Eval vm_compute in map scase_diag cases.\nPrint D.\n"
             % ";\n".join("[" + "; ".join(ev.replace("(", "(%s%%N, " % ev[1:ev.index(",")], 1).replace("(%s%%N, %s," % (ev[1:ev.index(",")], ev[1:ev.index(",")]), "(%s%%N," % ev[1:ev.index(",")], 1) for ev in evs) + "]" for _, evs in g)) for si, g in enumerate(groups)]
    bad = []
    for (nm, rc, out), g in zip(vlib.run_cases_parallel(jobs), groups):
        m = re.search(r"D\s*=\s*(.*?)\n\s*:\s", out, flags=re.S) if rc == 0 else None
        pairs = re.findall(r"\(\s*(\d+)(?:%N)?,\s*(\d+)(?:%N)?\s*\)", m.group(1)) if m else None
        if pairs is None or len(pairs) != len(g):
            res.mismatches.append({"family": family, "error": "cases file %s did not evaluate" % nm, "log": out[-1500:]})
            continue
        for (d, i), (r, evs) in zip(pairs, g):
            if int(d) != 0:
                bad.append((r, int(d), int(i), evs))
    return bad, items


def forwarder_cases(run):
    """one event list per server connection: what the forwarder registered, forwarded and closed (hook order); the value
    itself tells which subscription produced it (token*1000+i)"""
    ml = main_labels(run)
    client = ml[1]
    tok_of_req = {}
    for e in run["events"]:
        if e["c"] == client and e["p"] == "call.start" and (e["a"][1] or "").endswith(("Sub", "SubS", "SubOnly")):
            args = e["a"][4] if len(e["a"]) > 4 else []
            i = nid(e["a"][0])
            if args and i is not None:
                tok_of_req[i] = (args[0], args[1] if len(args) > 1 else 0)
    if any(n >= 1000 for _, n in tok_of_req.values()):
        return {}          # values no longer tell their subscription (i >= 1000)
    toks = {t for t, _ in tok_of_req.values()}
    per = {}
    untracked = set()      # (conn, chid) of channels that are not Sub / SubS streams (interface-typed ones): left out
    for e in run["events"]:
        c, p, a = e["c"], e["p"], e["a"] or []
        if not c.startswith("ws-server#"):
            continue
        if p in ("och.val.v", "och.close") and (c, nid(a[0])) in untracked:
            continue
        if p == "och.reg":
            t = tok_of_req.get(nid(a[1]))
            if t is None:
                untracked.add((c, nid(a[0])))
            else:
                untracked.discard((c, nid(a[0])))
            if t is not None:
                per.setdefault(c, []).append("CReg %d %d" % (t[0], nid(a[0])))
        elif p == "och.val.v":
            v = ival(a[1])
            if v is None:
                continue
            tok = v // 1000
            if tok in toks and c in per:
                per[c].append("CVal %d %d" % (tok, nid(a[0])))
        elif p == "och.close" and c in per:
            per[c].append("CCloseTag %d" % nid(a[0]))
    return per


FHEADER = "From Coq Require Import List NArith Bool.\nImport ListNotations.\nFrom JR Require Import Forwarder AuthCases ForwarderCases.\nOpen Scope N_scope.\n"


def validate_forwarder(res, runs, name):
    """replays the forwarder events of every server connection through Forwarder.step (the code's swap-remove on both
    slices): every value must have gone out under the tag the model computes. Returns (bad, n_cases, n_events)"""
    import re
    items = []
    for r in runs:
        for conn, evs in forwarder_cases(r).items():
            if any(e.startswith("CVal") for e in evs):
                items.append((r, conn, evs))
    if not items:
        return [], 0, 0
    src = FHEADER + "Definition cases : list (list fcev) := [\n%s\n].\nDefinition D := Eval vm_compute in map fcase_diag cases.\nPrint D.\n" % ";\n".join(
        "[" + "; ".join(e) + "]" for _, _, e in items)
    rc, out = vlib.run_cases("cases_%sf" % name, src)
    m = re.search(r"D\s*=\s*(.*?)\n\s*:\s", out, flags=re.S) if rc == 0 else None
    pairs = re.findall(r"\(\s*(\d+)(?:%N)?,\s*(\d+)(?:%N)?\s*\)", m.group(1)) if m else None
    if pairs is None or len(pairs) != len(items):
        res.mismatches.append({"family": "conn/forwarder", "error": "forwarder cases did not evaluate", "log": out[-1500:]})
        return [], 0, 0
    bad = [(r, conn, int(i), evs) for (d, i), (r, conn, evs) in zip(pairs, items) if int(d) != 0]
    return bad, len(items), sum(len(e) for _, _, e in items)


RP_EV = {"reader.msg": "RMsg", "reader.err": "RErr", "frame.enq": "FEnq", "frame.err": "FErr", "loop.readerr": "LReadErr",
         "exec.take": "XTake", "redial.swap": "Rearm"}
PHEADER = "From Coq Require Import List Arith Bool.\nImport ListNotations.\nFrom JR Require Import ReadPipe.\n"


def readpipe_cases(run):
    """reader-pipeline events of every connection object of this run that read at least one frame (client and server side)"""
    per = {}
    for e in run["events"]:
        c, p = e["c"], e["p"]
        if not c.startswith(("ws-client#", "ws-server#")):
            continue
        if p in RP_EV:
            per.setdefault(c, []).append(RP_EV[p])
        elif p == "loop.incoming":
            per.setdefault(c, []).append("LIncoming %s" % ("true" if (e["a"] or [False])[0] else "false"))
    # a connection object whose loop has seen the failure and that was not re-armed by a redial is dead; the allocator may
    # hand its address (= its label) to the next connection object: split there
    out = {}
    for c, evs in per.items():
        part, k, reported = [], 0, False
        for ev in evs:
            if reported and ev in ("RMsg", "RErr"):
                out["%s/%d" % (c, k)] = part
                part, k, reported = [], k + 1, False
            if ev in ("LReadErr", "LIncoming false"):
                reported = True
            elif ev == "Rearm":
                reported = False
            part.append(ev)
        out["%s/%d" % (c, k)] = part
    # objects of an earlier scenario still winding down show up with a truncated life (no first frame): keep those that
    # start like a fresh connection
    return {c: evs for c, evs in out.items() if evs and evs[0] in ("RMsg", "RErr") and "FEnq" in evs}


def validate_readpipe(res, runs, name):
    import re
    items = [(r, c, evs) for r in runs for c, evs in readpipe_cases(r).items() if len(evs) <= 20000]
    if not items:
        return [], 0, 0
    groups = [items[i::8] for i in range(8)]
    groups = [g for g in groups if g]
    jobs = [("cases_%sp_%d" % (name, gi), PHEADER + "Definition cases : list (list rev_) := [\n%s\n].\nDefinition D := Eval vm_compute in map (fun es => rrun_diag rp0 es 0) cases.\nPrint D.\n"
             % ";\n".join("[" + "; ".join(e) + "]" for _, _, e in g)) for gi, g in enumerate(groups)]
    bad = []
    for (nm, rc, out), g in zip(vlib.run_cases_parallel(jobs), groups):
        m = re.search(r"D\s*=\s*(.*?)\n\s*:\s", out, flags=re.S) if rc == 0 else None
        toks = re.findall(r"None|Some\s+(\d+)", m.group(1)) if m else None
        vals = re.findall(r"None|Some\s+\d+", m.group(1)) if m else None
        if vals is None or len(vals) != len(g):
            res.mismatches.append({"family": "conn/readpipe", "error": "cases file %s did not evaluate" % nm, "log": out[-1500:]})
            continue
        for v, (r, c, evs) in zip(vals, g):
            if v != "None":
                bad.append((r, c, int(v.split()[1]), evs))
    return bad, len(items), sum(len(e) for _, _, e in items)


def reverse_labels(run):
    """(server-side wsConn acting as requester, its reverse client object) for single-client reverse runs"""
    import collections
    rc = collections.Counter(e["c"] for e in run["events"] if e["p"] == "call.start" and str((e["a"] or [None, ""])[1]).startswith(("R.", "R_", "r.", "Who", "who", "AliasWho")))
    sc = collections.Counter(e["c"] for e in run["events"] if e["c"].startswith("ws-server#") and e["p"] == "loop.take")
    if len(rc) != 1 or len(sc) != 1:
        return None
    return list(sc)[0], list(rc)[0]


# ---------------------------------------------------------------- keepalive (Keepalive.v)

def keepalive_case(run):
    ml = main_labels(run)
    cconn = ml[0]
    T = int(run["params"]["timeout_ms"]) * 1000000
    silent = run["params"]["kind"] == "silent"
    kevs, aevs = [], ["ConnUp"]
    armed = [int(e["a"][0]) for e in run["events"] if e["c"] == cconn and e["p"] == "deadline.reset" and e.get("a")]
    last_t = None
    started = False
    for e in run["events"]:
        if e["c"] != cconn:
            continue
        p = e["p"]
        if p == "deadline.reset" and not started:
            started = True
            last_t = e["t"]          # the first arming of the deadline is time 0 of the model
            aevs.append("ResetDeadline")
            continue
        if not started:
            continue
        if p in ("deadline.reset", "reader.err", "reader.msg", "ping.recv", "pong.recv", "send.req", "ping.send", "redial.swap"):
            dt = e["t"] - last_t
            last_t = e["t"]
            kevs.append("Tick %d" % dt)
        if p == "deadline.reset":
            kevs.append("Reset")
            aevs.append("ResetDeadline")
        elif p == "reader.msg":
            aevs.append("PeerData")
        elif p in ("ping.recv", "pong.recv"):
            aevs.append("PeerControl")
        elif p in ("send.req", "ping.send"):
            aevs.append("OwnWrite")
        elif p == "redial.swap":
            aevs.append("ConnUp")
        elif p == "reader.err":
            break                     # the first reader error ends the timed trace of this connection
    P = int(run["params"]["ping_ms"]) * 1000000
    opts = ["OPing %d" % P, "OTimeout %d" % T]
    if run["params"].get("timeout_option_first"):
        opts.reverse()
    return "{| kc_opts := [%s]; kc_events := [%s]; kc_expect_fired := %s; kc_aevents := [%s]; kc_armed := [%s] |}" % (
        "; ".join(opts), "; ".join(kevs), "true" if silent else "false", "; ".join(aevs), "; ".join(str(x) for x in armed))


KHEADER = "From Coq Require Import List ZArith NArith Bool.\nImport ListNotations.\nFrom JR Require Import Keepalive AuthCases Options KeepaliveCases.\nOpen Scope Z_scope.\n"


LOOP_ITER = ("loop.incoming", "loop.readerr", "loop.take", "loop.pong", "loop.timeout")


def looptimer_cases(run, slack_ns=5000000):
    """the loop's idle timer is re-armed at the top of every iteration of handleWsConn's loop and fires `timeout` later:
    (a) healthy runs: replayed with the configured T, it must never fire; (b) every observed firing (loop.timeout) comes
    no earlier than T - slack after the previous iteration. Returns a list of (label, kcase term)."""
    ml = main_labels(run)
    cconn = ml[0]
    T = int(run["params"]["timeout_ms"]) * 1000000
    P = int(run["params"]["ping_ms"]) * 1000000
    evs = [e for e in run["events"] if e["c"] == cconn and e["p"] in LOOP_ITER]
    if not evs:
        return []
    out = []

    def term(opts_T, ticks, fired):
        opts = ["OPing %d" % P, "OTimeout %d" % opts_T]
        return "{| kc_opts := [%s]; kc_events := [%s]; kc_expect_fired := %s; kc_aevents := []; kc_armed := [] |}" % (
            "; ".join(opts), "; ".join(ticks), "true" if fired else "false")
    if run["params"]["kind"] == "healthy":
        ticks, last = [], evs[0]["t"]
        for e in evs[1:]:
            ticks += ["Tick %d" % (e["t"] - last), "Reset"]
            last = e["t"]
        out.append(("healthy: the idle timer never fires", term(T, ticks, False)))
    prev = None
    for e in evs:
        if e["p"] == "loop.timeout" and prev is not None:
            out.append(("an observed firing is not early", term(max(1, T - slack_ns), ["Tick %d" % (e["t"] - prev["t"])], True)))
        prev = e
    return out


def validate_keepalive(res, runs, name):
    import re
    runs = [r for r in runs if r["scenario"] == "keepalive"]
    if not runs:
        return [], runs
    src = KHEADER + "Definition cases : list kcase := [\n%s\n].\nDefinition D := Eval vm_compute in map kcase_diag cases.\nPrint D.\n" % ";\n".join(keepalive_case(r) for r in runs)
    rc, out = vlib.run_cases("cases_%sk" % name, src)
    m = re.search(r"D\s*=\s*(.*?)\n\s*:\s", out, flags=re.S) if rc == 0 else None
    pairs = re.findall(r"\(\s*(\d+)(?:%N)?,\s*(\d+)(?:%N)?\s*\)", m.group(1)) if m else None
    if pairs is None or len(pairs) != len(runs):
        res.mismatches.append({"family": "conn/keepalive", "error": "keepalive cases did not evaluate", "log": out[-1500:]})
        return [], runs
    bad = [(r, int(d), int(i)) for (d, i), r in zip(pairs, runs) if int(d) != 0]
    # the loop's idle timer, the second clock of the keepalive: same discrete-time model, its own re-arming events
    lt = [(r, lab, term) for r in runs for lab, term in looptimer_cases(r)]
    if lt:
        src2 = KHEADER + "Definition cases : list kcase := [\n%s\n].\nDefinition D := Eval vm_compute in map kcase_diag cases.\nPrint D.\n" % ";\n".join(t for _, _, t in lt)
        rc2, out2 = vlib.run_cases("cases_%skl" % name, src2)
        m2 = re.search(r"D\s*=\s*(.*?)\n\s*:\s", out2, flags=re.S) if rc2 == 0 else None
        pairs2 = re.findall(r"\(\s*(\d+)(?:%N)?,\s*(\d+)(?:%N)?\s*\)", m2.group(1)) if m2 else None
        if pairs2 is None or len(pairs2) != len(lt):
            res.mismatches.append({"family": "conn/keepalive", "error": "idle-timer cases did not evaluate", "log": out2[-1500:]})
        else:
            for (d, i), (r, lab, term) in zip(pairs2, lt):
                if int(d) != 0:
                    res.mismatches.append({"family": "conn/keepalive", "params": r["params"], "diag": "the loop's idle timer: " + lab + " — not so in this run (replayed through the deadline model)"})
            res.add_cov(idle_timer_cases_validated=len(lt))
    return bad, runs
