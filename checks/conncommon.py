"""Translation of recorded hook traces (harness family `conn`) into events of the requester LTS (Conn.v)."""
import json
import vlib

OUT = {"ok": "OGenuine", "handler-error": "OGenuine", "ok-cancelled": "OGenuine", "connerr": "OConnErr", "exiting": "OExiting"}
BUILTIN = ("xrpc.cancel", "xrpc.ch.val", "xrpc.ch.close")


def nid(x):
    if isinstance(x, bool) or x is None:
        return None
    if isinstance(x, (int, float)) and float(x).is_integer() and x >= 0:
        return int(x)
    return None


def requester_events(run, conn="ws-client#1", client="client#1"):
    """returns (list of Coq ev terms, outcomes list [(id, outcome)], notes)"""
    evs = []
    tok2id = {}
    outcomes = {}
    for e in run["events"]:
        p, c, a = e["p"], e["c"], e["a"] or []
        if c == client:
            if p == "call.start":
                i = nid(a[0])
                if i is None:
                    continue                      # notification: anonymous in the model
                args = a[4] if len(a) > 4 else []
                if args:
                    tok2id[args[0]] = i
                if i in outcomes or ("CallStart %d" % i) in " ".join(evs[-0:]) and False:
                    pass
                if not any(x.startswith("CallStart %d " % i) for x in evs):
                    evs.append("CallStart %d %s" % (i, "true" if a[2] else "false"))
            elif p == "call.recv":
                i = nid(a[0])
                if i is not None:
                    evs.append("CallRecv %d %s" % (i, "true" if a[2] else "false"))
            elif p == "call.exiting":
                i = nid(a[0])
                if i is not None:
                    evs.append("CallExiting %d" % i)
            elif p == "call.retry":
                i = nid(a[0])
                if i is not None:
                    evs.append("CallRetry %d" % i)
        elif c == conn:
            if p == "loop.take":
                i = nid(a[1])
                evs.append("LoopTake %d" % i if i is not None and a[0] not in BUILTIN else "LoopTakeOther")
            elif p == "loop.failfast":
                evs.append("LoopFailFast %d" % nid(a[0]))
            elif p == "loop.register":
                evs.append("LoopRegister %d" % nid(a[0]))
            elif p == "loop.sent":
                i = nid(a[1])
                evs.append("LoopSent %d %s" % (i, "true" if a[2] else "false") if i is not None and a[0] not in BUILTIN else "LoopSentOther")
            elif p == "resp.lookup.l":
                i = nid(a[0])
                if i is not None:
                    evs.append("ExecLookup %d %s" % (i, "true" if a[1] else "false"))
            elif p == "resp.deliver":
                evs.append("ExecDeliver %d" % nid(a[0]))
            elif p == "resp.deleted":
                evs.append("ExecDeleted %d %s" % (nid(a[0]), "true" if a[1] else "false"))
            elif p == "cif.deliver":
                evs.append("CifDeliver %d" % nid(a[0]))
            elif p == "cif.cleared":
                evs.append("CifCleared")
            elif p == "reconn.begin":
                evs.append("ReconnBegin")
            elif p == "redial.swap":
                evs.append("RedialSwap")
            elif p == "loop.exit":
                evs.append("LoopExit")
            elif p == "redial.attempt":
                evs.append("RedialAttempt %d" % int(a[0]))
            elif p == "redial.dialed":
                evs.append("RedialDialed %s" % ("true" if a[0] else "false"))
        elif c == "harness" and p == "call.return":
            tok, out = a[0], a[1]
            if tok in tok2id and out in OUT:
                evs.append("CallReturn %d %s" % (tok2id[tok], OUT[out]))
                outcomes[tok2id[tok]] = OUT[out]
    return evs, sorted(outcomes.items()), tok2id


def tcase_term(evs, outcomes):
    return "{| tc_events := [%s]; tc_outcomes := [%s] |}" % ("; ".join(evs), "; ".join("(%d, %s)" % (i, o) for i, o in outcomes))


HEADER = "From Coq Require Import List NArith Bool.\nImport ListNotations.\nFrom JR Require Import Conn AuthCases ConnCases.\nOpen Scope N_scope.\n"


def validate(res, runs, name, family="conn", shards=16):
    """returns list of (run, diag, index) for runs the model does not accept"""
    items = []
    for r in runs:
        evs, outs, t2i = requester_events(r)
        items.append((r, evs, outs))
    groups = [items[i::shards] for i in range(shards)]
    groups = [g for g in groups if g]
    jobs = []
    for si, g in enumerate(groups):
        src = HEADER + "Definition cases : list tcase := [\n%s\n].\nDefinition D := Eval vm_compute in map tcase_diag cases.\nPrint D.\n" % ";\n".join(tcase_term(e, o) for _, e, o in g)
        jobs.append(("cases_%s_%d" % (name, si), src))
    bad = []
    import re
    for (nm, rc, out), g in zip(vlib.run_cases_parallel(jobs), groups):
        m = re.search(r"D\s*=\s*(.*?)\n\s*:\s", out, flags=re.S) if rc == 0 else None
        if not m:
            res.mismatches.append({"family": family, "error": "cases file %s did not evaluate" % nm, "log": out[-1500:]})
            continue
        pairs = re.findall(r"\(\s*(\d+),\s*(\d+)\s*\)", m.group(1))
        if len(pairs) != len(g):
            res.mismatches.append({"family": family, "error": "cases file %s: %d results for %d cases" % (nm, len(pairs), len(g))})
            continue
        for (d, i), (r, evs, outs) in zip(pairs, g):
            if int(d) != 0:
                bad.append((r, int(d), int(i), evs))
    return bad, items


# ---------------------------------------------------------------- responder (Resp.v)

def responder_events(run, sconn="ws-server#1", cconn="ws-client#1", client="client#1"):
    evs = []
    tok2id = {}
    for e in run["events"]:
        p, c, a = e["p"], e["c"], e["a"] or []
        if c == client and p == "call.start":
            args = a[4] if len(a) > 4 else []
            if args:
                tok2id[args[0]] = nid(a[0])
    for e in run["events"]:
        p, c, a = e["p"], e["c"], e["a"] or []
        if c == "harness" and p == "ctx.cancel":
            # the caller's intent as the harness knows it (not as the library reports it)
            i = tok2id.get(a[0])
            if i is not None:
                evs.append("CallerCancel %d" % i)
        elif c == sconn:
            if p == "call.register":
                evs.append("SRegister %d" % nid(a[0]))
            elif p == "call.done":
                i = nid(a[0])
                if i is not None:
                    evs.append("SDone %d %s" % (i, "true" if a[1] else "false"))
            elif p == "cancel.recv":
                i = nid(a[0])
                if i is not None:
                    evs.append("SCancelRecv %d %s" % (i, "true" if a[1] else "false"))
            elif p == "cif.cancelling":
                evs.append("SCifCancelled")
            elif p == "loop.exit":
                evs.append("SExit")
        elif c == "harness":
            if p == "srv.cancel":
                evs.append("SCtxCancelled")
            elif p == "h.ctxdone":
                tok = a[0]
                if tok in tok2id:
                    i = tok2id[tok]
                    evs.append("HCtxDone %d" % i if i is not None else "HCtxDoneNote")
            elif p == "h.end" and len(a) > 1 and a[1] is False:
                tok = a[0]
                if tok2id.get(tok) is not None:
                    evs.append("HEndLive %d" % tok2id[tok])
    return evs


RHEADER = "From Coq Require Import List NArith Bool.\nImport ListNotations.\nFrom JR Require Import Resp AuthCases RespCases.\nOpen Scope N_scope.\n"


def validate_responder(res, runs, name, family="conn"):
    import re
    items = [(r, responder_events(r)) for r in runs if sum(1 for e in r["events"] if e["c"].startswith("ws-server#") and e["p"] == "loop.exit") <= 1
             and not any(e["c"] == "ws-server#2" for e in r["events"])]
    if not items:
        return [], items
    groups = [items[i::8] for i in range(8)]
    groups = [g for g in groups if g]
    jobs = [("cases_%sr_%d" % (name, si), RHEADER + "Definition cases : list (list rev * bool) := [\n%s\n].\nDefinition D := Eval vm_compute in map (fun c => rcase_diag_end (fst c) (snd c)) cases.\nPrint D.\n"
             % ";\n".join("([" + "; ".join(evs) + "], %s)" % ("true" if r["scenario"] == "connend" else "false") for r, evs in g)) for si, g in enumerate(groups)]
    bad = []
    for (nm, rc, out), g in zip(vlib.run_cases_parallel(jobs), groups):
        m = re.search(r"D\s*=\s*(.*?)\n\s*:\s", out, flags=re.S) if rc == 0 else None
        pairs = re.findall(r"\(\s*(\d+),\s*(\d+)\s*\)", m.group(1)) if m else None
        if pairs is None or len(pairs) != len(g):
            res.mismatches.append({"family": family, "error": "cases file %s did not evaluate" % nm, "log": out[-1500:]})
            continue
        for (d, i), (r, evs) in zip(pairs, g):
            if int(d) != 0:
                bad.append((r, int(d), int(i), evs))
    return bad, items
