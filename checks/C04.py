"""C04 — at-most-once execution. Theorems: Props_C04.v (model Conn.v). Correspondence: trace validation of harness family conn."""
import vlib
import connrun

PROPS = "Props_C04"


def run(res):
    vlib.proof_step(res, PROPS, ["theories/ConnCases.vo"])
    connrun.run_conn(res, ["fault", "perm", "httpfault"])


def replay(res, path):
    run(res)
