"""C19 — permission checks. Theorems: coq/theories/Props_C19.v. Correspondence: family `auth` (exhaustive)."""
import json
import vlib
from vlib import coq_string as S, coq_list as L, coq_option as O, coq_bool as B

PROPS = "Props_C19"


def slist(xs):
    return L([S(x) for x in xs])


def run(res):
    ok = vlib.proof_step(res, PROPS, ["theories/AuthCases.vo"])
    okb, blog, exe = vlib.build_harness()
    if not okb:
        res.failed_obligations.append(("harness does not build against /repo", blog))
        return
    rc, cases, err, bad = vlib.run_family(exe, "auth", seed=res.seed, tier=res.tier)
    if rc != 0 or bad:
        res.mismatches.append({"family": "auth", "error": "harness exit %d" % rc, "stderr": err[-2000:], "bad": bad[:3]})
        return
    proxy, http, build = [], [], []
    for c in cases:
        k = c["kind"]
        if c.get("oracle_fail"):
            res.violations.append({"what": c["oracle_fail"], "case": c, "family": "auth",
                                   "signature": "auth:" + json.dumps({x: c[x] for x in ("attached", "dflt", "required", "method")}, sort_keys=True)})
        if k == "proxy":
            shape = "ShErr" if c["method"].endswith("Err") else "ShValErr"
            fail = c["method"].startswith("Fail")
            ival = {"DoVal": 7, "FailVal": 9}.get(c["method"], 0)
            proxy.append((c, "{| pc_attached := %s; pc_dflt := %s; pc_required := %s; pc_shape := %s; pc_impl_val := %d; pc_impl_err := %s; pc_invoked := %d; pc_err_nil := %s; pc_val := %d |}" % (
                O(c["attached"], slist), slist(c["dflt"]), S(c["required"]), shape, ival, B(fail), c["invoked"], B(c["err_nil"]), c["val"])))
        elif k == "http":
            table = [("tokA", ["read", "write"]), ("tokE", []), ("tokNil", []), ("", ["admin"]), (" tokA", ["read"]),
                     ("read-token", ["read"]), ("eyJhbGci", ["write"]), ("Bearer", ["admin"]), ("d-token", ["admin", "sign"]), ("yJhbGci", ["admin"])]
            tt = L(["(%s, Some %s)" % (S(a), slist(b)) for a, b in table])
            http.append((c, "{| hc_hdr := %s; hc_query := %s; hc_verify := %s; hc_status := %d; hc_next := %d; hc_attached := %s; hc_verify_calls := %s |}" % (
                S(c["hdr"] or ""), S(c["query"] or ""), tt, c["status"], c["next_calls"], O(c["attached"], slist), slist(c["verify_calls"]))))
        elif k == "build":
            tags = {"missing": ["read", ""], "unknown": ["read", "sign"], "ok": ["read", "read", "read", "read"]}[c["which"]]
            obs = 0 if c["result"] == "ok" else (1 if c["result"].startswith("missing") else (2 if c["result"].startswith("unknown") else 9))
            build.append((c, "BC %s %s %d" % (slist(["read", "write", "admin"]), slist(tags), obs)))
    src = ("From Coq Require Import List String Bool NArith.\nImport ListNotations.\nOpen Scope string_scope.\n"
           "From JR Require Import Auth AuthCases.\n"
           "Definition proxy_cases : list proxy_case := %s.\nDefinition http_cases : list http_case := %s.\nDefinition build_cases : list build_case := %s.\n"
           "Definition MP := Eval vm_compute in mismatches proxy_ok proxy_cases.\nDefinition MH := Eval vm_compute in mismatches http_ok http_cases.\n"
           "Definition MB := Eval vm_compute in mismatches build_ok build_cases.\nPrint MP.\nPrint MH.\nPrint MB.\n") % (
        L([t for _, t in proxy]), L([t for _, t in http]), L([t for _, t in build]))
    rc, out = vlib.run_cases("cases_C19", src)
    for var, lst in (("MP", proxy), ("MH", http), ("MB", build)):
        mm = vlib.parse_mismatch_list(out, var) if rc == 0 else None
        if mm is None:
            res.mismatches.append({"family": "auth", "error": "cases file did not evaluate", "log": out[-1500:]})
            break
        for i in mm:
            c = lst[i][0]
            res.mismatches.append({"family": "auth", "case": c, "model_term": lst[i][1]})
            # violation search: a disagreement on an exhaustive finite universe IS a concrete input; judge it with the
            # property stated directly (independently of the model)
            w = direct_oracle(c)
            if w:
                res.violations.append({"what": w, "case": c, "family": "auth", "signature": "auth:" + json.dumps(c, sort_keys=True)})
    distinct = len({json.dumps(c, sort_keys=True) for c in cases})
    nontriv = sum(1 for c in cases if (c["kind"] == "proxy" and (c["attached"] is not None or c["dflt"])) or (c["kind"] == "http" and (c["hdr"] or c["query"])) or c["kind"] == "build")
    res.add_cov(evaluations=len(cases), distinct_nontrivial=min(distinct, nontriv), exhaustive=True,
                rule="exhaustive enumeration: 3 required perms x 12 default sets x (not attached + 12 attached sets) x 4 method shapes/outcomes; "
                     "12 header forms x 6 query forms with a 4-entry verifier table; 3 constructions. non-trivial = some permission set or token involved; distinct by full case record",
                samples=[l[i][0] for l, i in ((proxy, 5), (proxy, -1), (http, 2), (http, -1), (build, 0)) if len(l) > max(i, 0)],
                histogram={"proxy": len(proxy), "http": len(http), "build": len(build),
                           "proxy_invoked": sum(1 for c, _ in proxy if c["invoked"] == 1), "http_401": sum(1 for c, _ in http if c["status"] == 401)})
    res.assumptions += ["reflect.MakeFunc / MethodByName dispatch and http.Request.FormValue are Go runtime/stdlib (modelled, not verified)",
                        "permissions are compared with == only (checked: the model uses a boolean equality and nothing else)"]


def direct_oracle(c):
    if c["kind"] == "proxy":
        eff = c["attached"] if c["attached"] is not None else c["dflt"]
        should = c["required"] in eff
        if should and c["invoked"] != 1:
            return "caller holds %r but implementation invoked %d times" % (c["required"], c["invoked"])
        if not should and (c["invoked"] != 0 or c["err_nil"] or c["val"] != 0):
            return "caller lacks %r (effective set %r) but invoked=%d err_nil=%s val=%d" % (c["required"], eff, c["invoked"], c["err_nil"], c["val"])
        if should:
            fail = c["method"].startswith("Fail")
            if c["err_nil"] == fail:
                return "implementation result not passed through"
    if c["kind"] == "http":
        table = {"tokA": ["read", "write"], "tokE": [], "tokNil": [], "": ["admin"], " tokA": ["read"],
                 "read-token": ["read"], "eyJhbGci": ["write"], "Bearer": ["admin"], "d-token": ["admin", "sign"], "yJhbGci": ["admin"]}
        hdr, q = c["hdr"] or "", c["query"] or ""
        tok = hdr if hdr else ("Bearer " + q if q else "")
        if tok == "":
            exp = (200, 1, None, [])
        elif not tok.startswith("Bearer "):
            exp = (401, 0, None, [])
        else:
            t = tok[len("Bearer "):]
            exp = (200, 1, [p for p in ["read", "write", "admin", "sign", ""] if p in table[t]], [t]) if t in table else (401, 0, None, [t])
        got = (c["status"], c["next_calls"], c["attached"], c["verify_calls"])
        if got != exp:
            return "auth handler: hdr=%r query=%r expected (status,next,attached,verify)=%r got %r" % (c["hdr"], c["query"], exp, got)
    if c["kind"] == "build":
        exp = {"missing": "missing", "unknown": "unknown", "ok": "ok"}[c["which"]]
        if not c["result"].startswith(exp):
            return "construction %s: %s" % (c["which"], c["result"])
    return None


def replay(res, path):
    run(res)
