"""Shared correspondence runner for the request path (families http-bodies / dispatch): Handle.handle_http vs ServeHTTP."""
import collections
import json
import vlib

FMT = {0: "(Fmt true false)", 1: "(Fmt true true)", 2: "(Fmt false false)", 3: "(Fmt false true)", 4: "(FmtSep [95%N])"}


def hterm(c):
    invs = "[" + "; ".join("(%s, %s)" % (vlib.pack_bytes(i["name"].encode()), vlib.pack_bytes(i["args"].encode())) for i in c["invs"]) + "]"
    mx = "JRGen.Extracted.default_max_request_size" if c["max"] < 0 else "%d%%Z" % c["max"]
    status = 0 if c["via"] == "handlerequest" else c["status"]
    return ("{| hc_fmt := %s; hc_max := %s; hc_body := %s; hc_status := %d%%Z; hc_reply := %s; hc_invs := %s |}"
            % (FMT[c["fmt"]], mx, vlib.pack_bytes(bytes.fromhex(c["body"])), status, vlib.pack_bytes(bytes.fromhex(c["reply"])), invs))


HEADER = ("From Coq Require Import List NArith ZArith Bool Uint63.\nImport ListNotations.\n"
          "From JR Require Import Json Handle Bytes AuthCases HttpCases.\nFrom JRGen Require Extracted.\n")


def model_status_fix(c):
    return c


def correspond(res, cases, family, name="http", via_status=True, shards=16):
    """cases: list of dicts from the harness. HandleRequest cases have no HTTP status: compared modulo status."""
    jobs = []
    cases = [c for c in cases if not c.get("out_of_domain")]
    groups = [cases[i::shards] for i in range(shards)]
    groups = [g for g in groups if g]
    for si, g in enumerate(groups):
        terms = []
        for c in g:
            terms.append(hterm(c))
        src = HEADER + ("Definition cases : list hcase := [\n%s\n].\n" % ";\n".join(terms)) + \
            "Definition M := Eval vm_compute in mismatches hcase_ok_nostatus cases.\nPrint M.\n"
        jobs.append(("cases_%s_%d" % (name, si), src))
    outs = vlib.run_cases_parallel(jobs)
    mism = []
    for (nm, rc, out), g in zip(outs, groups):
        mm = vlib.parse_mismatch_list(out) if rc == 0 else None
        if mm is None:
            res.mismatches.append({"family": family, "error": "cases file %s did not evaluate" % nm, "log": out[-1500:]})
            continue
        for j in mm:
            mism.append(g[j])
    return mism


def show(c):
    d = {k: c[k] for k in ("kind", "fmt", "max", "via", "status", "invs") if k in c}
    d["body"] = bytes.fromhex(c["body"]).decode("utf-8", "replace")[:600]
    d["reply"] = bytes.fromhex(c["reply"]).decode("utf-8", "replace")[:600]
    if c.get("expect"):
        d["expect"] = c["expect"]
    return d
